(* Model of the ChonkyBFT v2 message and certificate types and their
   verification / assembly functions:
     roles/src/validator/messages/v2/{consensus,replica_commit,replica_timeout,
     leader_proposal,replica_new_view,block}.rs
   Cryptography is symbolic (DESIGN §4.2, H-SIG): a signature is the pair
   (signer key, message it was produced over); an aggregate signature is the
   multiset of the signatures aggregated into it and verifies against a claimed
   list of (key, message) pairs iff the two multisets are equal.  Keys are ranks
   in the byte order of public keys; hashes are opaque identifiers. *)
From Coq Require Import ZArith List Bool.
From EC Require Import Lib.Outcome Lib.U64 Lib.ListW Lib.Obs.
Import ListNotations.
Open Scope Z_scope.

(* ---------- plain data ---------- *)
Record view := { vgen : Z; vepoch : Z; vnum : Z }.
Record header := { hnum : Z; hpay : Z }.
Record commit := { cview : view; cprop : header }.         (* ReplicaCommit *)

(* what a signature inside a CommitQC aggregate was produced over *)
Inductive sigref := RCommit (c : commit) | ROther (id : Z).
Record cqc := { qmsg : commit; qsigners : list bool; qagg : list (Z * sigref) }.
Record timeout := { tview : view; thv : option commit; thq : option cqc }.  (* ReplicaTimeout *)
Inductive tsigref := TTimeout (t : timeout) | TOther (id : Z).
(* TimeoutQC: the map is the list of its entries in BTreeMap iteration order *)
Record tqc := { tqview : view; tqmap : list (timeout * list bool); tqagg : list (Z * tsigref) }.
Inductive justification := JCommit (q : cqc) | JTimeout (t : tqc).

(* committee = Schedule: validators sorted by key *)
Record member := { mkey : Z; mweight : Z }.
Definition committee := list member.
Definition cweights (C : committee) : list Z := map mweight C.
Definition ctotal (C : committee) : Z := total (cweights C).
Definition quorum (C : committee) : Z := ctotal C - (ctotal C - 1) / 5.
Definition subquorum (C : committee) : Z := ctotal C - 3 * ((ctotal C - 1) / 5).

Fixpoint cindex_from (i : nat) (C : committee) (k : Z) : option nat :=
  match C with
  | [] => None
  | m :: C' => if mkey m =? k then Some i else cindex_from (S i) C' k
  end.
Definition cindex (C : committee) (k : Z) : option nat := cindex_from 0 C k.

(* ---------- decidable equalities ---------- *)
Definition view_eqb (a b : view) : bool :=
  (vgen a =? vgen b) && (vepoch a =? vepoch b) && (vnum a =? vnum b).
Definition header_eqb (a b : header) : bool := (hnum a =? hnum b) && (hpay a =? hpay b).
Definition commit_eqb (a b : commit) : bool :=
  view_eqb (cview a) (cview b) && header_eqb (cprop a) (cprop b).
Definition sigref_eqb (a b : sigref) : bool :=
  match a, b with
  | RCommit x, RCommit y => commit_eqb x y
  | ROther x, ROther y => x =? y
  | _, _ => false
  end.
Fixpoint list_eqb {A} (f : A -> A -> bool) (a b : list A) : bool :=
  match a, b with
  | [], [] => true
  | x :: a', y :: b' => f x y && list_eqb f a' b'
  | _, _ => false
  end.
Definition opt_eqb {A} (f : A -> A -> bool) (a b : option A) : bool :=
  match a, b with
  | None, None => true
  | Some x, Some y => f x y
  | _, _ => false
  end.
Definition ksig_eqb {A} (f : A -> A -> bool) (a b : Z * A) : bool :=
  (fst a =? fst b) && f (snd a) (snd b).
Definition cqc_eqb (a b : cqc) : bool :=
  commit_eqb (qmsg a) (qmsg b) && list_eqb Bool.eqb (qsigners a) (qsigners b)
  && list_eqb (ksig_eqb sigref_eqb) (qagg a) (qagg b).
Definition timeout_eqb (a b : timeout) : bool :=
  view_eqb (tview a) (tview b) && opt_eqb commit_eqb (thv a) (thv b) && opt_eqb cqc_eqb (thq a) (thq b).
Definition tsigref_eqb (a b : tsigref) : bool :=
  match a, b with
  | TTimeout x, TTimeout y => timeout_eqb x y
  | TOther x, TOther y => x =? y
  | _, _ => false
  end.

(* multiset equality of two lists *)
Fixpoint remove1 {A} (f : A -> A -> bool) (x : A) (l : list A) : option (list A) :=
  match l with
  | [] => None
  | y :: l' => if f x y then Some l'
               else match remove1 f x l' with Some r => Some (y :: r) | None => None end
  end.
Fixpoint mset_eqb {A} (f : A -> A -> bool) (a b : list A) : bool :=
  match a with
  | [] => match b with [] => true | _ => false end
  | x :: a' => match remove1 f x b with Some b' => mset_eqb f a' b' | None => false end
  end.

(* ---------- bit vectors ---------- *)
Definition bv_new (n : nat) : list bool := repeat false n.
Definition bv_none (b : list bool) : bool := negb (existsb (fun x => x) b).
Fixpoint bv_set (b : list bool) (i : nat) : list bool :=
  match b, i with
  | [], _ => []
  | _ :: b', O => true :: b'
  | x :: b', S i' => x :: bv_set b' i'
  end.

(* Signers::weight: assert_eq!(self.len(), schedule.len()) *)
Definition signers_weight {E} (C : committee) (s : list bool) : outcome E Z :=
  if Nat.eqb (length s) (length C) then Ok (weight (cweights C) s) else Panic PAssert.

(* keys of the committee members selected by a bitmap (equal lengths) *)
Fixpoint selected_keys (C : committee) (s : list bool) : list Z :=
  match C, s with
  | m :: C', b :: s' => if b then mkey m :: selected_keys C' s' else selected_keys C' s'
  | _, _ => []
  end.

(* ---------- errors (the Rust error variants) ---------- *)
Inductive view_err := EGenesis | EEpoch.
Inductive cqc_verify_err :=
| CInvalidMessage (e : view_err) | CBadSignersSet | CNotEnoughWeight | CBadSignature.
Inductive cqc_add_err :=
| CASignerNotInCommittee | CADuplicateSigner | CABadSignature | CAInconsistentMessages
| CAInvalidMessage (e : view_err).
Inductive timeout_verify_err :=
| TBadView (e : view_err) | TInvalidHighVote (e : view_err) | TInvalidHighQC (e : cqc_verify_err).
Inductive tqc_verify_err :=
| QBadView (e : view_err) | QInconsistentView (i : nat) | QInvalidMessage (i : nat) (e : timeout_verify_err)
| QWrongSignersLength (i : nat) | QNoSignersAssigned (i : nat) | QOverlapping (i : nat)
| QNotEnoughWeight | QBadSignature.
Inductive tqc_add_err :=
| TASignerNotInCommittee | TADuplicateSigner | TABadSignature | TAInconsistentViews
| TAInvalidMessage (e : timeout_verify_err).
Inductive just_err := JECommit (e : cqc_verify_err) | JETimeout (e : tqc_verify_err).
Inductive block_err := BHashMismatch | BJustification (e : cqc_verify_err).

(* ---------- verification ---------- *)
Definition view_verify (g e : Z) (v : view) : outcome view_err unit :=
  if negb (vgen v =? g) then Err EGenesis
  else if negb (vepoch v =? e) then Err EEpoch else Ok tt.

Definition commit_verify (g e : Z) (c : commit) : outcome view_err unit :=
  view_verify g e (cview c).

Definition map_err {E F A} (f : E -> F) (x : outcome E A) : outcome F A :=
  match x with Ok a => Ok a | Err e => Err (f e) | Panic p => Panic p end.

Definition cqc_verify (g e : Z) (C : committee) (q : cqc) : outcome cqc_verify_err unit :=
  let* _ := map_err CInvalidMessage (commit_verify g e (qmsg q)) in
  if negb (Nat.eqb (length (qsigners q)) (length C)) then Err CBadSignersSet else
  let* w := signers_weight C (qsigners q) in
  if w <? quorum C then Err CNotEnoughWeight else
  let claimed := map (fun k => (k, RCommit (qmsg q))) (selected_keys C (qsigners q)) in
  if mset_eqb (ksig_eqb sigref_eqb) (qagg q) claimed then Ok tt else Err CBadSignature.

Definition timeout_verify (g e : Z) (C : committee) (t : timeout) : outcome timeout_verify_err unit :=
  let* _ := map_err TBadView (view_verify g e (tview t)) in
  let* _ := match thv t with
            | Some v => map_err TInvalidHighVote (commit_verify g e v)
            | None => Ok tt
            end in
  match thq t with
  | Some q => map_err TInvalidHighQC (cqc_verify g e C q)
  | None => Ok tt
  end.

(* the loop over the map entries of TimeoutQC::verify; [sum] is the union so far *)
Fixpoint tqc_verify_entries (g e : Z) (C : committee) (v : view) (i : nat)
    (entries : list (timeout * list bool)) (sum : list bool)
  : outcome tqc_verify_err (list bool) :=
  match entries with
  | [] => Ok sum
  | (msg, signers) :: rest =>
      if negb (view_eqb (tview msg) v) then Err (QInconsistentView i) else
      if negb (Nat.eqb (length signers) (length sum)) then Err (QWrongSignersLength i) else
      if bv_none signers then Err (QNoSignersAssigned i) else
      if negb (bv_none (band sum signers)) then Err (QOverlapping i) else
      let* _ := map_err (QInvalidMessage i) (timeout_verify g e C msg) in
      tqc_verify_entries g e C v (S i) rest (bor sum signers)
  end.

Definition tqc_claimed (C : committee) (entries : list (timeout * list bool)) : list (Z * tsigref) :=
  flat_map (fun en => map (fun k => (k, TTimeout (fst en))) (selected_keys C (snd en))) entries.

Definition tqc_verify (g e : Z) (C : committee) (t : tqc) : outcome tqc_verify_err unit :=
  let* _ := map_err QBadView (view_verify g e (tqview t)) in
  let* sum := tqc_verify_entries g e C (tqview t) 0 (tqmap t) (bv_new (length C)) in
  let* w := signers_weight C sum in
  if w <? quorum C then Err QNotEnoughWeight else
  if mset_eqb (ksig_eqb tsigref_eqb) (tqagg t) (tqc_claimed C (tqmap t)) then Ok tt
  else Err QBadSignature.

(* ---------- incremental assembly ---------- *)
(* A signed message: claimed key, message, and the signature actually attached
   (signer, what it signed). Signed::verify accepts iff they coincide. *)
Record signed (M R : Type) := { skey : Z; smsg : M; ssig : Z * R }.
Arguments skey {M R}. Arguments smsg {M R}. Arguments ssig {M R}.

Definition cqc_new (m : commit) (C : committee) : cqc :=
  {| qmsg := m; qsigners := bv_new (length C); qagg := [] |}.

Definition cqc_add (g e : Z) (C : committee) (q : cqc) (s : signed commit sigref)
  : outcome cqc_add_err cqc :=
  match cindex C (skey s) with
  | None => Err CASignerNotInCommittee
  | Some i =>
      match nth_error (qsigners q) i with
      | None => Panic PIndex                         (* self.signers.0[i] *)
      | Some true => Err CADuplicateSigner
      | Some false =>
          if negb (ksig_eqb sigref_eqb (ssig s) (skey s, RCommit (smsg s))) then Err CABadSignature else
          if negb (commit_eqb (qmsg q) (smsg s)) then Err CAInconsistentMessages else
          let* _ := map_err CAInvalidMessage (commit_verify g e (smsg s)) in
          Ok {| qmsg := qmsg q; qsigners := bv_set (qsigners q) i; qagg := qagg q ++ [ssig s] |}
      end
  end.

Definition tqc_new (v : view) : tqc := {| tqview := v; tqmap := []; tqagg := [] |}.

(* self.map.values().any(|s| s.0[i]) *)
Fixpoint any_signed (entries : list (timeout * list bool)) (i : nat) : outcome tqc_add_err bool :=
  match entries with
  | [] => Ok false
  | (_, s) :: rest =>
      match nth_error s i with
      | None => Panic PIndex
      | Some true => Ok true
      | Some false => any_signed rest i
      end
  end.

(* entry(msg).or_insert_with(new).set(i): the model keeps insertion order; iteration-order
   dependent observations are canonicalised by the correspondence (DESIGN §4.3). *)
Fixpoint tqmap_set (entries : list (timeout * list bool)) (m : timeout) (n i : nat)
  : list (timeout * list bool) :=
  match entries with
  | [] => [(m, bv_set (bv_new n) i)]
  | (m', s) :: rest => if timeout_eqb m' m then (m', bv_set s i) :: rest
                       else (m', s) :: tqmap_set rest m n i
  end.

Definition tqc_add (g e : Z) (C : committee) (t : tqc) (s : signed timeout tsigref)
  : outcome tqc_add_err tqc :=
  match cindex C (skey s) with
  | None => Err TASignerNotInCommittee
  | Some i =>
      let* dup := any_signed (tqmap t) i in
      if dup then Err TADuplicateSigner else
      if negb (ksig_eqb tsigref_eqb (ssig s) (skey s, TTimeout (smsg s))) then Err TABadSignature else
      if negb (view_eqb (tview (smsg s)) (tqview t)) then Err TAInconsistentViews else
      let* _ := map_err TAInvalidMessage (timeout_verify g e C (smsg s)) in
      Ok {| tqview := tqview t; tqmap := tqmap_set (tqmap t) (smsg s) (length C) i;
            tqagg := tqagg t ++ [ssig s] |}
  end.

(* TimeoutQC::weight: sum over entries of signers.weight (each asserts its length) *)
Fixpoint tqc_weight_entries {E} (C : committee) (entries : list (timeout * list bool)) : outcome E Z :=
  match entries with
  | [] => Ok 0
  | (_, s) :: rest =>
      let* w := signers_weight C s in
      let* r := tqc_weight_entries C rest in
      Ok (w + r)
  end.
Definition tqc_weight {E} (C : committee) (t : tqc) : outcome E Z := tqc_weight_entries C (tqmap t).

(* ---------- high vote / high qc / implied block ---------- *)
(* count: per block header, the weight of the signers whose high vote is for it *)
Fixpoint count_add (h : header) (w : Z) (cnt : list (header * Z)) : list (header * Z) :=
  match cnt with
  | [] => [(h, w)]
  | (h', w') :: rest => if header_eqb h' h then (h', w' + w) :: rest else (h', w') :: count_add h w rest
  end.

Fixpoint high_vote_count {E} (C : committee) (entries : list (timeout * list bool))
    (cnt : list (header * Z)) : outcome E (list (header * Z)) :=
  match entries with
  | [] => Ok cnt
  | (msg, s) :: rest =>
      match thv msg with
      | Some v =>
          let* w := signers_weight C s in
          high_vote_count C rest (count_add (cprop v) w cnt)
      | None => high_vote_count C rest cnt
      end
  end.

Definition high_vote {E} (C : committee) (t : tqc) : outcome E (option header) :=
  let* cnt := high_vote_count C (tqmap t) [] in
  match filter (fun x => subquorum C <=? snd x) cnt with
  | [x] => Ok (Some (fst x))
  | _ => Ok None
  end.

(* max_by_key(view number): the last maximal element in iteration order *)
Fixpoint high_qc_from (entries : list (timeout * list bool)) (best : option cqc) : option cqc :=
  match entries with
  | [] => best
  | (msg, _) :: rest =>
      match thq msg with
      | None => high_qc_from rest best
      | Some q =>
          match best with
          | None => high_qc_from rest (Some q)
          | Some b => if vnum (cview (qmsg b)) <=? vnum (cview (qmsg q))
                      then high_qc_from rest (Some q) else high_qc_from rest best
          end
      end
  end.
Definition high_qc (t : tqc) : option cqc := high_qc_from (tqmap t) None.

(* BlockNumber::next / ViewNumber::next: self.0 + 1 *)
Definition num_next {E} (chk : bool) (n : Z) : outcome E Z := u64_add chk n 1.

Definition justification_view {E} (chk : bool) (j : justification) : outcome E view :=
  let v := match j with JCommit q => cview (qmsg q) | JTimeout t => tqview t end in
  let* n := num_next chk (vnum v) in
  Ok {| vgen := vgen v; vepoch := vepoch v; vnum := n |}.

Definition justification_verify (g e : Z) (C : committee) (j : justification) : outcome just_err unit :=
  match j with
  | JCommit q => map_err JECommit (cqc_verify g e C q)
  | JTimeout t => map_err JETimeout (tqc_verify g e C t)
  end.

(* (block number, Some hash for a re-proposal) *)
Definition get_implied_block {E} (chk : bool) (C : committee) (first_block : Z) (j : justification)
  : outcome E (Z * option Z) :=
  match j with
  | JCommit q => let* n := num_next chk (hnum (cprop (qmsg q))) in Ok (n, None)
  | JTimeout t =>
      let* hv := high_vote C t in
      let hq := high_qc t in
      let repropose :=
        match hv with
        | None => None
        | Some v =>
            match hq with
            | None => Some v
            | Some q => if hnum (cprop (qmsg q)) <? hnum v then Some v else None
            end
        end in
      match repropose with
      | Some v => Ok (hnum v, Some (hpay v))
      | None =>
          match hq with
          | Some q => let* n := num_next chk (hnum (cprop (qmsg q))) in Ok (n, None)
          | None => Ok (first_block, None)
          end
      end
  end.

(* FinalBlock::verify; a payload is represented by its hash *)
Definition final_block_verify (g e : Z) (C : committee) (payload : Z) (q : cqc) : outcome block_err unit :=
  if negb (payload =? hpay (cprop (qmsg q))) then Err BHashMismatch
  else map_err BJustification (cqc_verify g e C q).

(* ---------- observation encodings ---------- *)
Definition view_err_code (e : view_err) : Z := match e with EGenesis => 1 | EEpoch => 2 end.
Definition cqc_verify_err_obs (e : cqc_verify_err) : obsv :=
  match e with
  | CInvalidMessage x => OL [OZ 1; OZ (view_err_code x)]
  | CBadSignersSet => OL [OZ 2]
  | CNotEnoughWeight => OL [OZ 3]
  | CBadSignature => OL [OZ 4]
  end.
Definition cqc_add_err_obs (e : cqc_add_err) : obsv :=
  match e with
  | CASignerNotInCommittee => OL [OZ 1]
  | CADuplicateSigner => OL [OZ 2]
  | CABadSignature => OL [OZ 3]
  | CAInconsistentMessages => OL [OZ 4]
  | CAInvalidMessage x => OL [OZ 5; OZ (view_err_code x)]
  end.
Definition timeout_verify_err_obs (e : timeout_verify_err) : obsv :=
  match e with
  | TBadView x => OL [OZ 1; OZ (view_err_code x)]
  | TInvalidHighVote x => OL [OZ 2; OZ (view_err_code x)]
  | TInvalidHighQC x => OL [OZ 3; cqc_verify_err_obs x]
  end.
Definition tqc_verify_err_obs (e : tqc_verify_err) : obsv :=
  match e with
  | QBadView x => OL [OZ 1; OZ (view_err_code x)]
  | QInconsistentView i => OL [OZ 2; OZ (Z.of_nat i)]
  | QInvalidMessage i x => OL [OZ 3; OZ (Z.of_nat i); timeout_verify_err_obs x]
  | QWrongSignersLength i => OL [OZ 4; OZ (Z.of_nat i)]
  | QNoSignersAssigned i => OL [OZ 5; OZ (Z.of_nat i)]
  | QOverlapping i => OL [OZ 6; OZ (Z.of_nat i)]
  | QNotEnoughWeight => OL [OZ 7]
  | QBadSignature => OL [OZ 8]
  end.
Definition tqc_add_err_obs (e : tqc_add_err) : obsv :=
  match e with
  | TASignerNotInCommittee => OL [OZ 1]
  | TADuplicateSigner => OL [OZ 2]
  | TABadSignature => OL [OZ 3]
  | TAInconsistentViews => OL [OZ 4]
  | TAInvalidMessage x => OL [OZ 5; timeout_verify_err_obs x]
  end.
Definition just_err_obs (e : just_err) : obsv :=
  match e with
  | JECommit x => OL [OZ 1; cqc_verify_err_obs x]
  | JETimeout x => OL [OZ 2; tqc_verify_err_obs x]
  end.
Definition block_err_obs (e : block_err) : obsv :=
  match e with
  | BHashMismatch => OL [OZ 1]
  | BJustification x => OL [OZ 2; cqc_verify_err_obs x]
  end.

Definition obs_outcome {E A} (fe : E -> obsv) (fa : A -> obsv) (r : outcome E A) : obsv :=
  match r with
  | Ok a => OL [OZ 0; fa a]
  | Err e => OL [OZ 2; fe e]
  | Panic p => OL [OZ 1; OZ (panic_code p)]
  end.
Definition obs_unit (_ : unit) : obsv := OL [].
