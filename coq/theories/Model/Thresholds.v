(* Model of node/libs/roles/src/validator/messages/schedule.rs:
   max_faulty_weight, quorum_threshold, subquorum_threshold, and the weight
   accumulation of Schedule::new.  Transcribed operation by operation. *)
From Coq Require Import ZArith List.
From EC Require Import Lib.Outcome Lib.U64.
Import ListNotations.
Open Scope Z_scope.

Definition res := outcome unit Z.

(* (total_weight - 1) / 5 *)
Definition max_faulty_weight (chk : bool) (n : Z) : res :=
  let* a := u64_sub chk n 1 in
  u64_div a 5.

(* total_weight - max_faulty_weight(total_weight) *)
Definition quorum_threshold (chk : bool) (n : Z) : res :=
  let* f := max_faulty_weight chk n in
  u64_sub chk n f.

(* total_weight - 3 * max_faulty_weight(total_weight) *)
Definition subquorum_threshold (chk : bool) (n : Z) : res :=
  let* f := max_faulty_weight chk n in
  let* t := u64_mul chk 3 f in
  u64_sub chk n t.

(* The weight checks of Schedule::new: positive weights, checked sum, non-empty. *)
Inductive sched_err := EZeroWeight | EOverflow | EEmpty.

Fixpoint total_weight_from (acc : Z) (ws : list Z) : outcome sched_err Z :=
  match ws with
  | [] => Ok acc
  | w :: ws' =>
      if w <=? 0 then Err EZeroWeight else
      match u64_checked_add acc w with
      | None => Err EOverflow
      | Some acc' => total_weight_from acc' ws'
      end
  end.

Definition schedule_total (ws : list Z) : outcome sched_err Z :=
  let* t := total_weight_from 0 ws in
  match ws with [] => Err EEmpty | _ => Ok t end.

(* Observation encoding for the correspondence check: Ok v -> [0; v], panic -> [1; code]. *)
Definition obs (r : res) : list Z :=
  match r with
  | Ok v => [0; v]
  | Err _ => [2]
  | Panic p => [1; panic_code p]
  end.
Definition obs3 (chk : bool) (n : Z) : list (list Z) :=
  [obs (max_faulty_weight chk n); obs (quorum_threshold chk n); obs (subquorum_threshold chk n)].

From EC Require Import Lib.Obs.
Definition obs_case (c : bool * Z) : obsv :=
  OL (map ozs (obs3 (fst c) (snd c))).
