(* Protobuf wire format as read and written by the code under
   node/libs/protobuf/src/proto_fmt.rs (through quick_protobuf 0.8.1):

   - [encode_varint]  = quick_protobuf::Writer::write_varint (u64, minimal; identical to
                        prost::encoding::encode_varint)
   - [read_varint64]  = BytesReader::read_varint64: at most 10 bytes, 7 payload bits each, bits
                        beyond 2^64 silently dropped, an 11th byte is an error
   - [read_varint32]  = BytesReader::read_varint32 (used for tags and length prefixes): the
                        value modulo 2^32, at most 10 bytes
   - [read_value]     = proto_fmt.rs Reader::read: a value of the given wire type, re-encoded
                        (varints minimally, fixed-width values byte for byte)
   - [parse_tlvs]     = the tag/value loop of read_fields without the schema look-ups

   Bytes are [Z] in 0..255.  All errors of the reader are one [None]: the Rust side reports an
   anyhow error and the correspondence only distinguishes ok / error / panic. *)
From Coq Require Import String Ascii ZArith List Bool Lia.
Import ListNotations.
Open Scope Z_scope.

Definition bytes := list Z.

(* hex literals for the correspondence cases (a 20 kB list literal takes coqc many seconds to
   elaborate; a string literal does not) *)
Definition hex_digit (c : ascii) : Z :=
  let n := Z.of_nat (nat_of_ascii c) in
  if (48 <=? n) && (n <=? 57) then n - 48
  else if (97 <=? n) && (n <=? 102) then n - 87
  else 0.
Fixpoint unhex (s : string) : bytes :=
  match s with
  | String a (String b r) => (16 * hex_digit a + hex_digit b) :: unhex r
  | _ => []
  end.

Inductive wire : Type := WVarint | WI64 | WLen | WI32.

Definition wire_raw (w : wire) : Z :=
  match w with WVarint => 0 | WI64 => 1 | WLen => 2 | WI32 => 5 end.

(* Wire::from_tag *)
Definition wire_of_tag (tag : Z) : option wire :=
  match tag mod 8 with
  | 0 => Some WVarint
  | 1 => Some WI64
  | 2 => Some WLen
  | 5 => Some WI32
  | _ => None
  end.

Definition wire_eqb (a b : wire) : bool :=
  match a, b with
  | WVarint, WVarint | WI64, WI64 | WLen, WLen | WI32, WI32 => true
  | _, _ => false
  end.

(* ---- varints ---- *)

(* while v > 0x7f { push (v as u8) | 0x80; v >>= 7 }; push v.  Ten bytes suffice for a u64. *)
Fixpoint varint_enc (fuel : nat) (x : Z) : bytes :=
  match fuel with
  | O => [x]
  | S f => if x <? 128 then [x] else (x mod 128 + 128) :: varint_enc f (x / 128)
  end.
Definition encode_varint (x : Z) : bytes := varint_enc 9 x.

(* Reads up to [fuel] bytes; each contributes its low 7 bits; stops at the first byte < 128.
   None: ran out of input, or [fuel] bytes all had the continuation bit. *)
Fixpoint varint_dec (fuel : nat) (bs : bytes) : option (Z * bytes) :=
  match fuel with
  | O => None
  | S f =>
      match bs with
      | [] => None
      | b :: r =>
          if b <? 128 then Some (b, r)
          else match varint_dec f r with
               | Some (v, r') => Some ((b - 128) + 128 * v, r')
               | None => None
               end
      end
  end.

Definition two64 : Z := 18446744073709551616.
Definition two32 : Z := 4294967296.

Definition read_varint64 (bs : bytes) : option (Z * bytes) :=
  match varint_dec 10 bs with
  | Some (v, r) => Some (v mod two64, r)
  | None => None
  end.

Definition read_varint32 (bs : bytes) : option (Z * bytes) :=
  match varint_dec 10 bs with
  | Some (v, r) => Some (v mod two32, r)
  | None => None
  end.

(* ---- values ---- *)

Definition split_at (n : nat) (bs : bytes) : option (bytes * bytes) :=
  if (n <=? List.length bs)%nat then Some (firstn n bs, skipn n bs) else None.

(* BytesReader::read_bytes: varint32 length, then that many bytes. *)
Definition read_len (bs : bytes) : option (bytes * bytes) :=
  match read_varint32 bs with
  | Some (len, r) =>
      (* compared on Z: a 32-bit length must never be turned into a unary nat before the check *)
      if len <=? Z.of_nat (length r)
      then Some (firstn (Z.to_nat len) r, skipn (Z.to_nat len) r)
      else None
  | None => None
  end.

(* What the reader keeps of a value: the decoded varint, the raw fixed-width bytes, or the payload. *)
Inductive wval : Type :=
| VVar (z : Z)
| VFix (raw : bytes)
| VLen (payload : bytes).

Definition read_wval (w : wire) (bs : bytes) : option (wval * bytes) :=
  match w with
  | WVarint => match read_varint64 bs with Some (v, r) => Some (VVar v, r) | None => None end
  | WI64 => match split_at 8 bs with Some (v, r) => Some (VFix v, r) | None => None end
  | WI32 => match split_at 4 bs with Some (v, r) => Some (VFix v, r) | None => None end
  | WLen => match read_len bs with Some (v, r) => Some (VLen v, r) | None => None end
  end.

(* Reader::read returns the value re-encoded with quick_protobuf::Writer. *)
Definition raw_of_wval (v : wval) : bytes :=
  match v with
  | VVar z => encode_varint z
  | VFix raw => raw
  | VLen p => p
  end.

Definition read_value (w : wire) (bs : bytes) : option (bytes * bytes) :=
  match read_wval w bs with Some (v, r) => Some (raw_of_wval v, r) | None => None end.

(* ---- tag / value sequences ---- *)

Record tlv : Type := { tnum : Z; twire : wire; tval : wval }.

Fixpoint parse_tlvs_fuel (fuel : nat) (bs : bytes) : option (list tlv) :=
  match bs with
  | [] => Some []
  | _ =>
      match fuel with
      | O => None
      | S f =>
          match read_varint32 bs with
          | None => None
          | Some (tag, r) =>
              match wire_of_tag tag with
              | None => None
              | Some w =>
                  match read_wval w r with
                  | None => None
                  | Some (v, r') =>
                      match parse_tlvs_fuel f r' with
                      | None => None
                      | Some tl => Some ({| tnum := tag / 8; twire := w; tval := v |} :: tl)
                      end
                  end
              end
          end
      end
  end.
(* every iteration consumes at least one byte *)
Definition parse_tlvs (bs : bytes) : option (list tlv) := parse_tlvs_fuel (length bs) bs.

(* The loop of Reader::read_field over a packed payload. *)
Fixpoint unpack_fuel (fuel : nat) (w : wire) (bs : bytes) : option (list wval) :=
  match bs with
  | [] => Some []
  | _ =>
      match fuel with
      | O => None
      | S f =>
          match read_wval w bs with
          | None => None
          | Some (v, r) =>
              match unpack_fuel f w r with
              | None => None
              | Some vs => Some (v :: vs)
              end
          end
      end
  end.
Definition unpack (w : wire) (bs : bytes) : option (list wval) := unpack_fuel (length bs) w bs.

(* ---- writer ---- *)

Definition encode_tag (num : Z) (w : wire) : bytes := encode_varint (num * 8 + wire_raw w).
Definition encode_len_delim (b : bytes) : bytes := encode_varint (Z.of_nat (length b)) ++ b.

Definition encode_wval (v : wval) : bytes :=
  match v with
  | VVar z => encode_varint z
  | VFix raw => raw
  | VLen p => encode_len_delim p
  end.

Definition encode_tlv (t : tlv) : bytes := encode_tag (tnum t) (twire t) ++ encode_wval (tval t).
Definition encode_tlvs (l : list tlv) : bytes := flat_map encode_tlv l.

(* well-formed values: what a reader can return *)
Definition byte_ok (b : Z) : Prop := 0 <= b < 256.
Definition wval_ok (w : wire) (v : wval) : Prop :=
  match w, v with
  | WVarint, VVar z => 0 <= z < two64
  | WI64, VFix raw => length raw = 8%nat
  | WI32, VFix raw => length raw = 4%nat
  | WLen, VLen p => Z.of_nat (length p) < two32
  | _, _ => False
  end.
Definition tlv_ok (t : tlv) : Prop :=
  1 <= tnum t < 536870912 /\ wval_ok (twire t) (tval t).
