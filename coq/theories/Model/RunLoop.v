(* Black-box model of the bft component as started by Config::run
     components/bft/src/lib.rs            (run, run_v2, create_input_channel)
     components/bft/src/v2_chonky_bft/mod.rs      (StateMachine::run: the loop around the handlers)
     components/bft/src/v2_chonky_bft/proposer.rs (run_proposer, create_proposal)
   compared with the harness bin `runloop`, which starts the real `run` under a manual clock and
   feeds it through the real inbound channel.

   The replica is Model/ReplicaRun.v unchanged: the state after an operation is the one [run_op]
   computes.  Added here:
   - the inbound queue in front of the loop (Model/Chan.v: filter on the signature, one pending
     message per sender and kind), for messages fed one at a time and for bursts;
   - the proposer task: it watches the justification published by start_new_view (a watch keeps
     only the newest value), proposes when this node leads that view, waits for the previous block
     (at most one view timeout) before asking the engine for a payload;
   - time: the manual clock advances only by (view timeout + 1ms): on the timer operation and
     when a handler waits for a deadline (proposal whose previous block is missing, or a block
     that cannot be queued); every pending wait of the proposer is then over.
   The handler outcome is not observable; compared per operation: the ordered effects, the
   LeaderProposal messages of the proposer, the durable state, whether the component stopped,
   and which of the fed messages were acknowledged.
   No proofs in this file. *)
From Coq Require Import ZArith List Bool.
From EC Require Import Lib.Outcome Lib.U64 Lib.ListW Lib.Obs Model.Msgs Model.Replica Model.ReplicaRun
  Model.Chan.
Import ListNotations.
Open Scope Z_scope.

Inductive bop :=
| BIn (i : rinput)              (* one message (through the queue), the timer, or block sync *)
| BBurst (ms : list sgmsg)      (* messages pushed before the loop runs again *)
| BRestart.

(* ---------- the proposer task ---------- *)
Record pstate := {
  p_wait : option (justification * Z);  (* create_proposal waits for block n-1 before proposing n *)
  p_pend : option justification         (* newest justification not yet taken from the watch *)
}.
Definition p0 : pstate := {| p_wait := None; p_pend := None |}.

Inductive ptake := PSkip | PEmit (m : cmsg) | PWait (n : Z).

(* the harness engine's propose_payload *)
Definition proposed_payload (n : Z) : Z := 100 + n mod 100.

Definition prop_take (cfg : config) (next : Z) (j : justification) : ptake :=
  match justification_view (E := unit) (cchk cfg) j with
  | Ok mv =>
      if cleader cfg (vnum mv) =? cme cfg then
        match get_implied_block (E := unit) (cchk cfg) (cC cfg) (cfirst cfg) j with
        | Ok (n, Some _) => PEmit (MProposal None j)
        | Ok (n, None) =>
            if (0 <? n) && negb (n - 1 <? next) then PWait n
            else PEmit (MProposal (Some (proposed_payload n)) j)
        | _ => PSkip
        end
      else PSkip
  | _ => PSkip
  end.

(* sync::changed returns: take the newest justification *)
Definition prop_pend (cfg : config) (next : Z) (ps : pstate) : pstate * list cmsg :=
  match p_wait ps with
  | Some _ => (ps, [])
  | None =>
      match p_pend ps with
      | None => (ps, [])
      | Some j =>
          match prop_take cfg next j with
          | PSkip => (p0, [])
          | PEmit m => (p0, [m])
          | PWait n => ({| p_wait := Some (j, n); p_pend := None |}, [])
          end
      end
  end.

(* let the proposer task run until it waits again *)
Definition prop_run (cfg : config) (next : Z) (ps : pstate) : pstate * list cmsg :=
  match p_wait ps with
  | Some (j, n) =>
      if n - 1 <? next then
        let '(ps', out) := prop_pend cfg next {| p_wait := None; p_pend := p_pend ps |} in
        (ps', MProposal (Some (proposed_payload n)) j :: out)
      else (ps, [])
  | None => prop_pend cfg next ps
  end.

(* the effects of a step as the proposer sees them, in order: a queued block may release its
   wait, a notification replaces the pending justification *)
Fixpoint prop_effects (cfg : config) (next : Z) (ps : pstate) (es : list effect)
    : Z * pstate * list cmsg :=
  match es with
  | [] => (next, ps, [])
  | e :: es' =>
      let '(next1, ps1, out1) :=
        match e with
        | EQueueBlock n _ =>
            let nx := if next =? n then n + 1 else next in
            let '(p, o) := prop_run cfg nx ps in (nx, p, o)
        | ENotifyProposer j =>
            let '(p, o) := prop_run cfg next {| p_wait := p_wait ps; p_pend := Some j |} in
            (next, p, o)
        | _ => (next, ps, [])
        end in
      let '(next2, ps2, out2) := prop_effects cfg next1 ps1 es' in
      (next2, ps2, out1 ++ out2)
  end.

(* ---------- one input reaching the loop ---------- *)
(* does the manual clock advance during this input? *)
Definition clock_advanced (cfg : config) (s : rstate) (i : rinput) : bool :=
  match i with
  | ITimer => true
  | _ => match snd (rstep cfg s i) with
         | Err RMissingPreviousPayload | Err RBlocked => true
         | _ => false
         end
  end.

Definition bb_acc := (run_state * pstate * list effect * list cmsg)%type.

Definition bb_in (cfg : config) (a : bb_acc) (i : rinput) : bb_acc :=
  let '(st, ps, es0, out0) := a in
  if rs_dead st then a else
  let es := snd (fst (rstep_t cfg (rs_s st) i)) in
  let adv := clock_advanced cfg (rs_s st) i in
  let st' := fst (run_op cfg st (OpIn i)) in
  let '(_, ps1, out1) := prop_effects cfg (r_store_next (rs_s st)) ps es in
  let '(ps2, out2) :=
    if adv then prop_run cfg (r_store_next (rs_s st')) {| p_wait := None; p_pend := p_pend ps1 |}
    else (ps1, []) in
  (st', ps2, es0 ++ es, out0 ++ out1 ++ out2).

(* ---------- the inbound queue ---------- *)
Definition cert_view (j : justification) : Z :=
  match j with JCommit q => vnum (cview (qmsg q)) | JTimeout t => vnum (tqview t) end.
Definition to_imsg (id : Z) (m : sgmsg) : imsg :=
  let '(k, raw) :=
    match m_msg m with
    | MProposal _ j => (0, cert_view j)
    | MCommit c => (1, vnum (cview c))
    | MTimeout t => (2, vnum (tview t))
    | MNewView j => (3, cert_view j)
    end in
  {| imsender := m_key m; imkind := k; imraw := raw; imsig := m_sig_ok m; imid := id |}.

Fixpoint number_from {A} (i : Z) (l : list A) : list (Z * A) :=
  match l with [] => [] | x :: l' => (i, x) :: number_from (i + 1) l' end.

(* the messages the loop receives, in order, after all of [ms] were sent into an empty queue *)
Definition queue_survivors (ms : list sgmsg) : list sgmsg :=
  let buf := fold_left (fun b p => qsend b (to_imsg (fst p) (snd p))) (number_from 0 ms) [] in
  flat_map (fun im => match nth_error ms (Z.to_nat (imid im)) with Some m => [m] | None => [] end) buf.

(* a burst: the survivors of the queue reach the loop in order; a message is acknowledged when
   its handler returned and the loop went on (filtered / pruned messages and the messages still
   pending when the component stops are not) *)
Definition bb_burst_ids (cfg : config) (st : run_state) (ps : pstate) (ms : list sgmsg)
    : bb_acc * list Z :=
  fold_left (fun (x : bb_acc * list Z) (im : imsg) =>
               let '(a, acked) := x in
               match nth_error ms (Z.to_nat (imid im)) with
               | None => x
               | Some m =>
                   let '(st0, _, _, _) := a in
                   let a' := bb_in cfg a (IMsg m) in
                   let '(st1, _, _, _) := a' in
                   (a', if negb (rs_dead st0) && negb (rs_dead st1) then imid im :: acked else acked)
               end)
            (fold_left (fun b p => qsend b (to_imsg (fst p) (snd p))) (number_from 0 ms) [])
            ((st, ps, [], []), []).
Definition bb_burst (cfg : config) (st : run_state) (ps : pstate) (ms : list sgmsg) : bb_acc :=
  fst (bb_burst_ids cfg st ps ms).
Definition bb_acks (cfg : config) (st : run_state) (ps : pstate) (ms : list sgmsg) : list obsv :=
  let acked := snd (bb_burst_ids cfg st ps ms) in
  map (fun p => ob (existsb (Z.eqb (fst p)) acked)) (number_from 0 ms).

Definition bb_restart (cfg : config) (st : run_state) : bb_acc :=
  if rs_dead st then (st, p0, [], []) else
  let s := rstart cfg (rs_d st) (r_store_first (rs_s st)) (r_store_next (rs_s st)) in
  let es := snd (fst (rprologue cfg s)) in
  let st' := fst (run_op cfg st OpRestart) in
  let '(_, ps1, out1) := prop_effects cfg (r_store_next s) p0 es in
  (st', ps1, es, out1).

Definition bb_op (cfg : config) (st : run_state) (ps : pstate) (o : bop) : bb_acc :=
  match o with
  | BIn (IMsg m) => bb_burst cfg st ps [m]
  | BIn i => bb_in cfg (st, ps, [], []) i
  | BBurst ms => bb_burst cfg st ps ms
  | BRestart => bb_restart cfg st
  end.

(* ---------- observations ---------- *)
Definition bop_acks (cfg : config) (st : run_state) (ps : pstate) (o : bop) : list obsv :=
  match o with
  | BIn (IMsg m) => bb_acks cfg st ps [m]
  | BBurst ms => bb_acks cfg st ps ms
  | _ => []
  end.

Definition obs_bb (es : list effect) (out : list cmsg) (st : run_state) (acks : list obsv) : obsv :=
  OL [OL (flat_map obs_effect es); OL (map obs_cmsg out); obs_durable (rs_d st); ob (rs_dead st);
      OL acks].

Fixpoint bb_ops (cfg : config) (st : run_state) (ps : pstate) (ops : list bop) : list obsv :=
  match ops with
  | [] => []
  | o :: rest =>
      if rs_dead st then OL [OZ 9] :: bb_ops cfg st ps rest else
      let '(st', ps', es, out) := bb_op cfg st ps o in
      obs_bb es out st' (bop_acks cfg st ps o) :: bb_ops cfg st' ps' rest
  end.

(* the first incarnation is a (re)start from the given durable state and store range *)
Definition run_case (c : config * durable * Z * Z * list bop) : obsv :=
  let '(cfg, d, first, next, ops) := c in
  let st0 := {| rs_s := rstart cfg d first next; rs_d := d; rs_dead := false |} in
  let '(st1, ps1, es, out) := bb_restart cfg st0 in
  OL (obs_bb es out st1 [] :: bb_ops cfg st1 ps1 ops).
