(* C13 — model of node/components/network/src/noise/bytes.rs (Buffer) and of the framing /
   buffering logic of noise/stream.rs (poll_write / poll_flush / poll_shutdown / poll_read),
   driven by a scripted transport.  Model only, no proofs.

   Conventions
   - bytes are [Z]; lengths, offsets, capacities and the nonce are [nat];
   - [outcome unit A]: [Ok a] normal return, [Panic p] a Rust panic (debug_assert = PAssert,
     slice index = PIndex; the dev profile, debug assertions on), [Err tt] = the model ran out of
     fuel (excluded by Proofs/NoiseProofs.v);
   - the AEAD (snow / ChaChaPoly) is the Section parameter [enc]/[dec] (H-AEAD), the nonce is the
     per-direction frame counter ([length w_sent] / [length r_got], ghost logs of what was
     encrypted / accepted);
   - the payload capacity [PC] is a Section parameter; the code's value is [MAX_PAYLOAD_LEN]
     = 65519, the frame buffer has capacity [PC + 16 + 2]. *)
From Coq Require Import ZArith List Bool Arith.
From EC Require Import Lib.Obs Lib.Outcome.
Import ListNotations.
Open Scope nat_scope.

(* ------------------------------------------------------------------------- *)
(* bytes.rs: Buffer.  The backing array [inner] is pre ++ data ++ post with
   begin = |pre|, end = |pre| + |data|; content = inner[begin..end] = data. *)

Record buffer : Type := { b_pre : list Z; b_data : list Z; b_post : list Z }.

Definition buf_new (cap : nat) : buffer :=
  {| b_pre := []; b_data := []; b_post := repeat 0%Z cap |}.
Definition buf_len (b : buffer) : nat := length (b_data b).
Definition buf_capacity (b : buffer) : nat := length (b_post b).
Definition buf_begin (b : buffer) : nat := length (b_pre b).
Definition buf_end (b : buffer) : nat := length (b_pre b) + length (b_data b).
Definition buf_size (b : buffer) : nat := length (b_pre b) + length (b_data b) + length (b_post b).
Definition buf_as_slice (b : buffer) : list Z := b_data b.

(* push: n = min(capacity, buf.len()); inner[end..end+n] = buf[..n]; end += n *)
Definition buf_push (b : buffer) (buf : list Z) : buffer * nat :=
  let n := Nat.min (buf_capacity b) (length buf) in
  ({| b_pre := b_pre b; b_data := b_data b ++ firstn n buf; b_post := skipn n (b_post b) |}, n).

(* as_mut_capacity()[off .. off + |bytes|] = bytes  (slice index panic when out of range) *)
Definition buf_write_cap (b : buffer) (off : nat) (bytes : list Z) : outcome unit buffer :=
  if off + length bytes <=? buf_capacity b then
    Ok {| b_pre := b_pre b; b_data := b_data b;
          b_post := firstn off (b_post b) ++ bytes ++ skipn (off + length bytes) (b_post b) |}
  else Panic PIndex.

(* extend(n): debug_assert!(end + n <= inner.len()); end += n *)
Definition buf_extend (b : buffer) (n : nat) : outcome unit buffer :=
  if n <=? buf_capacity b then
    Ok {| b_pre := b_pre b; b_data := b_data b ++ firstn n (b_post b); b_post := skipn n (b_post b) |}
  else Panic PAssert.

(* take(n): debug_assert!(begin + n <= end); begin += n *)
Definition buf_take (b : buffer) (n : nat) : outcome unit buffer :=
  if n <=? buf_len b then
    Ok {| b_pre := b_pre b ++ firstn n (b_data b); b_data := skipn n (b_data b); b_post := b_post b |}
  else Panic PAssert.

(* prefix::<2>(): debug_assert!(begin + 2 <= end) *)
Definition buf_prefix2 (b : buffer) : outcome unit (Z * Z) :=
  match b_data b with
  | x :: y :: _ => Ok (x, y)
  | _ => Panic PAssert
  end.

(* set_prefix::<2>(p): inner[end..end+2] = p  (slice index panic if capacity < 2) *)
Definition buf_set_prefix2 (b : buffer) (p : Z * Z) : outcome unit buffer :=
  match b_post b with
  | _ :: _ :: rest => Ok {| b_pre := b_pre b; b_data := b_data b; b_post := fst p :: snd p :: rest |}
  | _ => Panic PIndex
  end.

(* shift(): inner.copy_within(begin..end, 0); end -= begin; begin = 0 *)
Definition buf_shift (b : buffer) : buffer :=
  {| b_pre := []; b_data := b_data b;
     b_post := skipn (length (b_data b)) (b_pre b ++ b_data b ++ b_post b) |}.

(* reset(): begin = end = 0 *)
Definition buf_reset (b : buffer) : buffer :=
  {| b_pre := []; b_data := []; b_post := b_pre b ++ b_data b ++ b_post b |}.

(* u16 little endian *)
Definition le16 (n : nat) : Z * Z :=
  let z := (Z.of_nat n mod 65536)%Z in ((z mod 256)%Z, (z / 256)%Z).
Definition dec16 (p : Z * Z) : nat := Z.to_nat (fst p + 256 * snd p)%Z.
Definition hdr (l : list Z) : Z * Z := (nth 0 l 0%Z, nth 1 l 0%Z).

(* noise.write_message(payload, &mut frame.as_mut_capacity()[2..]) = ct;
   frame.set_prefix((n as u16).to_le_bytes()); frame.extend(2 + n) *)
Definition build_frame (fr0 : buffer) (ct : list Z) : outcome unit buffer :=
  let* fr1 := buf_write_cap fr0 2 ct in
  let* fr2 := buf_set_prefix2 fr1 (le16 (length ct)) in
  buf_extend fr2 (2 + length ct).

(* a read of |bytes| bytes into as_mut_capacity(); extend(|bytes|) *)
Definition buf_fill (b : buffer) (bytes : list Z) : outcome unit buffer :=
  let* b1 := buf_write_cap b 0 bytes in
  buf_extend b1 (length bytes).

(* ------------------------------------------------------------------------- *)
(* the scripted transport shared by the two endpoints of one direction *)

Inductive tresp : Type := TPending | TFail | TOk (k : nat).

Inductive ioerr : Type := EWriteZero | ETransport | EInvalidData | ENoise.
Definition ioerr_code (e : ioerr) : Z :=
  match e with EWriteZero => 1 | ETransport => 2 | EInvalidData => 3 | ENoise => 4 end%Z.

Inductive pr (A : Type) : Type := PReady (a : A) | PPending | PErr (e : ioerr).
Arguments PReady {A} a.
Arguments PPending {A}.
Arguments PErr {A} e.

Record net : Type := {
  n_wscript : list tresp;   (* answers to the writer's inner poll_write / poll_flush / poll_shutdown *)
  n_rscript : list tresp;   (* answers to the reader's inner poll_read *)
  n_hist : list Z;          (* every byte the writer's transport accepted, in order *)
  n_chan : list Z;          (* bytes in flight (after tampering) *)
  n_rin : list Z;           (* every byte handed to the reader so far *)
  n_cut : bool;             (* the adversary cut the connection: later bytes are dropped *)
  n_closed : bool;          (* end of stream after the bytes in flight *)
  n_log : list obsv         (* inner calls of the current operation *)
}.

Definition net_init : net :=
  {| n_wscript := []; n_rscript := []; n_hist := []; n_chan := []; n_rin := [];
     n_cut := false; n_closed := false; n_log := [] |}.

Definition zn (n : nat) : obsv := OZ (Z.of_nat n).
Definition set_w (n : net) (s : list tresp) (l : list obsv) : net :=
  {| n_wscript := s; n_rscript := n_rscript n; n_hist := n_hist n; n_chan := n_chan n; n_rin := n_rin n;
     n_cut := n_cut n; n_closed := n_closed n; n_log := n_log n ++ l |}.

Definition inner_write (n : net) (buf : list Z) : net * pr nat :=
  let accept (s : list tresp) (m : nat) :=
    let bytes := firstn m buf in
    ({| n_wscript := s; n_rscript := n_rscript n; n_hist := n_hist n ++ bytes;
        n_chan := if n_cut n then n_chan n else n_chan n ++ bytes; n_rin := n_rin n;
        n_cut := n_cut n; n_closed := n_closed n;
        n_log := n_log n ++ [OL [OZ 0; zn (length buf); zn m]] |}, PReady m) in
  match n_wscript n with
  | [] => accept [] (length buf)
  | TPending :: s => (set_w n s [OL [OZ 0; zn (length buf); OZ (-1)]], PPending)
  | TFail :: s => (set_w n s [OL [OZ 0; zn (length buf); OZ (-2)]], PErr ETransport)
  | TOk k :: s => accept s (Nat.min k (length buf))
  end.

Definition inner_ctl (code : Z) (n : net) : net * pr unit :=
  match n_wscript n with
  | [] => (set_w n [] [OL [OZ code; OZ 0]], PReady tt)
  | TPending :: s => (set_w n s [OL [OZ code; OZ (-1)]], PPending)
  | TFail :: s => (set_w n s [OL [OZ code; OZ (-2)]], PErr ETransport)
  | TOk _ :: s => (set_w n s [OL [OZ code; OZ 0]], PReady tt)
  end.
Definition inner_flush := inner_ctl 1.
Definition inner_shutdown (n : net) : net * pr unit :=
  let '(n1, r) := inner_ctl 2 n in
  match r with
  | PReady _ =>
      ({| n_wscript := n_wscript n1; n_rscript := n_rscript n1; n_hist := n_hist n1; n_chan := n_chan n1;
          n_rin := n_rin n1; n_cut := n_cut n1; n_closed := true; n_log := n_log n1 |}, r)
  | _ => (n1, r)
  end.

Definition set_r (n : net) (s : list tresp) (l : list obsv) : net :=
  {| n_wscript := n_wscript n; n_rscript := s; n_hist := n_hist n; n_chan := n_chan n; n_rin := n_rin n;
     n_cut := n_cut n; n_closed := n_closed n; n_log := n_log n ++ l |}.

(* poll_read into a buffer of [cap] bytes: Ready [] is end of stream *)
Definition inner_read (n : net) (cap : nat) : net * pr (list Z) :=
  let deliver (s : list tresp) (m : nat) :=
    match n_chan n with
    | [] => if n_closed n then (set_r n s [OL [OZ 3; zn cap; OZ 0]], PReady [])
            else (set_r n s [OL [OZ 3; zn cap; OZ (-1)]], PPending)
    | _ =>
        let bytes := firstn (Nat.min m cap) (n_chan n) in
        ({| n_wscript := n_wscript n; n_rscript := s; n_hist := n_hist n;
            n_chan := skipn (Nat.min m cap) (n_chan n); n_rin := n_rin n ++ bytes;
            n_cut := n_cut n; n_closed := n_closed n;
            n_log := n_log n ++ [OL [OZ 3; zn cap; zn (length bytes)]] |}, PReady bytes)
    end in
  match n_rscript n with
  | [] => deliver [] cap
  | TPending :: s => (set_r n s [OL [OZ 3; zn cap; OZ (-1)]], PPending)
  | TFail :: s => (set_r n s [OL [OZ 3; zn cap; OZ (-2)]], PErr ETransport)
  | TOk k :: s => deliver s k
  end.

(* ------------------------------------------------------------------------- *)
Section Stream.
  Variable enc : nat -> list Z -> list Z.            (* nonce -> plaintext -> ciphertext *)
  Variable dec : nat -> list Z -> option (list Z).
  Variable PC : nat.                                  (* MAX_PAYLOAD_LEN *)

  Definition AUTH : nat := 16.
  Definition LENF : nat := 2.
  Definition MAXMSG : nat := Z.to_nat 65535.          (* snow MAXMSGLEN = MAX_TRANSPORT_MSG_LEN *)
  Definition FC : nat := PC + AUTH + LENF.            (* MAX_FRAME_LEN *)

  Record wst : Type := { w_payload : buffer; w_frame : buffer; w_sent : list (list Z) }.
  (* r_got: ghost log of the accepted frames: header bytes, ciphertext, plaintext *)
  Record rst : Type := { r_payload : buffer; r_frame : buffer; r_got : list (Z * Z * list Z * list Z) }.
  Definition w_init : wst := {| w_payload := buf_new PC; w_frame := buf_new FC; w_sent := [] |}.
  Definition r_init : rst := {| r_payload := buf_new PC; r_frame := buf_new FC; r_got := [] |}.

  Definition wres (A : Type) : Type := outcome unit (wst * net * pr A).
  Definition rres (A : Type) : Type := outcome unit (rst * net * pr A).

  (* poll_flush_frame: while frame.len() > 0 { n = ready!(inner.poll_write(frame.as_slice()))?; ... } *)
  Fixpoint flush_frame (fuel : nat) (w : wst) (n : net) : wres unit :=
    if buf_len (w_frame w) =? 0 then Ok (w, n, PReady tt) else
    match fuel with
    | O => Err tt
    | S f =>
        let '(n1, r) := inner_write n (buf_as_slice (w_frame w)) in
        match r with
        | PPending => Ok (w, n1, PPending)
        | PErr e => Ok (w, n1, PErr e)
        | PReady k =>
            if k =? 0 then Ok (w, n1, PErr EWriteZero) else
            let* fr := buf_take (w_frame w) k in
            flush_frame f {| w_payload := w_payload w; w_frame := fr; w_sent := w_sent w |} n1
        end
    end.
  Definition poll_flush_frame (w : wst) (n : net) : wres unit :=
    flush_frame (S (buf_len (w_frame w))) w n.

  (* poll_flush_payload *)
  Definition poll_flush_payload (w : wst) (n : net) : wres unit :=
    if buf_len (w_payload w) =? 0 then Ok (w, n, PReady tt) else
    let* x := poll_flush_frame w n in
    let '(w1, n1, r) := x in
    match r with
    | PPending => Ok (w1, n1, PPending)
    | PErr e => Ok (w1, n1, PErr e)
    | PReady _ =>
        let fr0 := buf_reset (w_frame w1) in
        let pl := buf_as_slice (w_payload w1) in
        (* &mut frame.as_mut_capacity()[LENGTH_FIELD_LEN..] *)
        if buf_capacity fr0 <? LENF then Panic PIndex else
        (* snow write_message: Err(Input) when the payload does not fit *)
        if (MAXMSG <? length pl + AUTH) || (buf_capacity fr0 - LENF <? length pl + AUTH)
        then Ok ({| w_payload := w_payload w1; w_frame := fr0; w_sent := w_sent w1 |}, n1, PErr ENoise)
        else
          let ct := enc (length (w_sent w1)) pl in
          let* fr3 := build_frame fr0 ct in
          let* p1 := buf_take (w_payload w1) (buf_len (w_payload w1)) in
          let p2 := buf_reset p1 in
          Ok ({| w_payload := p2; w_frame := fr3; w_sent := w_sent w1 ++ [pl] |}, n1, PReady tt)
    end.

  Definition poll_write (w : wst) (n : net) (buf : list Z) : wres nat :=
    match buf with
    | [] => Ok (w, n, PReady 0)
    | _ =>
        let* x := (if buf_capacity (w_payload w) =? 0 then poll_flush_payload w n
                   else Ok (w, n, PReady tt)) in
        let '(w1, n1, r) := x in
        match r with
        | PPending => Ok (w1, n1, PPending)
        | PErr e => Ok (w1, n1, PErr e)
        | PReady _ =>
            let '(p, k) := buf_push (w_payload w1) buf in
            if k =? 0 then Panic PAssert (* debug_assert!(n > 0) *) else
            Ok ({| w_payload := p; w_frame := w_frame w1; w_sent := w_sent w1 |}, n1, PReady k)
        end
    end.

  Definition poll_flush_with (last : net -> net * pr unit) (w : wst) (n : net) : wres unit :=
    let* x := poll_flush_payload w n in
    let '(w1, n1, r) := x in
    match r with
    | PPending => Ok (w1, n1, PPending)
    | PErr e => Ok (w1, n1, PErr e)
    | PReady _ =>
        let* y := poll_flush_frame w1 n1 in
        let '(w2, n2, r2) := y in
        match r2 with
        | PPending => Ok (w2, n2, PPending)
        | PErr e => Ok (w2, n2, PErr e)
        | PReady _ => let '(n3, r3) := last n2 in Ok (w2, n3, r3)
        end
    end.
  Definition poll_flush := poll_flush_with inner_flush.
  Definition poll_shutdown := poll_flush_with inner_shutdown.

  (* poll_read_frame *)
  Definition frame_complete (fr : buffer) : outcome unit (option nat) :=
    if LENF <=? buf_len fr then
      let* p := buf_prefix2 fr in
      let L := dec16 p in
      Ok (if LENF + L <=? buf_len fr then Some L else None)
    else Ok None.

  Fixpoint read_frame (fuel : nat) (r : rst) (n : net) : rres (option nat) :=
    let* c := frame_complete (r_frame r) in
    match c with
    | Some L => Ok (r, n, PReady (Some L))
    | None =>
        match fuel with
        | O => Err tt
        | S f =>
            let '(n1, res) := inner_read n (buf_capacity (r_frame r)) in
            match res with
            | PPending => Ok (r, n1, PPending)
            | PErr e => Ok (r, n1, PErr e)
            | PReady bytes =>
                if length bytes =? 0 then Ok (r, n1, PReady None) else
                let* fr2 := buf_fill (r_frame r) bytes in
                read_frame f {| r_payload := r_payload r; r_frame := fr2; r_got := r_got r |} n1
            end
        end
    end.
  Definition poll_read_frame (r : rst) (n : net) : rres (option nat) :=
    read_frame (S (buf_capacity (r_frame r))) r n.

  (* poll_read_payload *)
  Definition poll_read_payload (r : rst) (n : net) : rres unit :=
    if 0 <? buf_len (r_payload r) then Ok (r, n, PReady tt) else
    let* x := poll_read_frame r n in
    let '(r1, n1, res) := x in
    match res with
    | PPending => Ok (r1, n1, PPending)
    | PErr e => Ok (r1, n1, PErr e)
    | PReady None => Ok (r1, n1, PReady tt)
    | PReady (Some L) =>
        let pl0 := buf_reset (r_payload r1) in
        (* &frame.as_slice()[LENGTH_FIELD_LEN..LENGTH_FIELD_LEN + n] *)
        if buf_len (r_frame r1) <? LENF + L then Panic PIndex else
        let c := firstn L (skipn LENF (buf_as_slice (r_frame r1))) in
        let bad := {| r_payload := pl0; r_frame := r_frame r1; r_got := r_got r1 |} in
        (* snow read_message: Err(Input) if |c| > MAXMSGLEN, Err(Decrypt) if |c| < 16, if the output
           buffer is too small, or if authentication fails; the nonce advances only on success *)
        if MAXMSG <? length c then Ok (bad, n1, PErr EInvalidData) else
        match dec (length (r_got r1)) c with
        | None => Ok (bad, n1, PErr EInvalidData)
        | Some p =>
            if buf_capacity pl0 <? length p then Ok (bad, n1, PErr EInvalidData) else
            let* pl1 := buf_write_cap pl0 0 p in
            let* fr1 := buf_take (r_frame r1) (LENF + L) in
            let fr2 := buf_shift fr1 in
            let* pl2 := buf_extend pl1 (length p) in
            Ok ({| r_payload := pl2; r_frame := fr2; r_got := r_got r1 ++ [(hdr (buf_as_slice (r_frame r1)), c, p)] |}, n1, PReady tt)
        end
    end.

  (* poll_read with buf.remaining() = cap; the result is the bytes put into buf *)
  Definition poll_read (r : rst) (n : net) (cap : nat) : rres (list Z) :=
    let* x := poll_read_payload r n in
    let '(r1, n1, res) := x in
    match res with
    | PPending => Ok (r1, n1, PPending)
    | PErr e => Ok (r1, n1, PErr e)
    | PReady _ =>
        let k := Nat.min cap (buf_len (r_payload r1)) in
        let out := firstn k (buf_as_slice (r_payload r1)) in
        let* p1 := buf_take (r_payload r1) k in
        Ok ({| r_payload := p1; r_frame := r_frame r1; r_got := r_got r1 |}, n1, PReady out)
    end.

  (* ----------------------------------------------------------------------- *)
  (* one direction of a session: writer endpoint, transport (+ adversary), reader endpoint *)

  Record sim : Type := {
    s_w : wst; s_r : rst; s_net : net;
    s_accepted : list Z;     (* bytes accepted by poll_write (ghost) *)
    s_delivered : list Z;    (* bytes returned by poll_read (ghost) *)
    s_flushed : bool;        (* the last writer operation was a flush/shutdown that returned Ready(Ok) *)
    s_failed : bool          (* some poll_read returned an error or end of stream *)
  }.
  Definition sim_init : sim :=
    {| s_w := w_init; s_r := r_init; s_net := net_init; s_accepted := []; s_delivered := [];
       s_flushed := false; s_failed := false |}.

  (* what the adversary does to the bytes in flight: hist, bytes consumed so far, bytes in flight
     -> new bytes in flight, connection cut *)
  Definition tamper_fn : Type := list Z -> nat -> list Z -> list Z * bool.

  Inductive op : Type :=
  | OWrite (bytes : list Z) (script : list tresp)
  | OFlush (script : list tresp)
  | OShutdown (script : list tresp)
  | ORead (cap : nat) (script : list tresp)
  | OTamper (f : tamper_fn).

  Definition with_scripts (n : net) (ws rs : list tresp) : net :=
    {| n_wscript := ws; n_rscript := rs; n_hist := n_hist n; n_chan := n_chan n; n_rin := n_rin n;
       n_cut := n_cut n; n_closed := n_closed n; n_log := [] |}.

  Definition obs_pr {A} (f : A -> list obsv) (r : pr A) : obsv :=
    match r with
    | PReady a => OL (OZ 0 :: f a)
    | PPending => OL [OZ 1]
    | PErr e => OL [OZ 2; OZ (ioerr_code e)]
    end.

  Definition hash_bytes (l : list Z) : Z :=
    fold_left (fun h b => Z.land (h * 33 + b + 1) 4294967295)%Z l 0%Z.

  Definition is_ready {A} (r : pr A) : bool := match r with PReady _ => true | _ => false end.

  Definition step (s : sim) (o : op) : outcome unit (sim * obsv) :=
    match o with
    | OWrite bytes sc =>
        let* x := poll_write (s_w s) (with_scripts (s_net s) sc []) bytes in
        let '(w1, n1, r) := x in
        let k := match r with PReady k => k | _ => 0 end in
        Ok ({| s_w := w1; s_r := s_r s; s_net := n1; s_accepted := s_accepted s ++ firstn k bytes;
               s_delivered := s_delivered s; s_flushed := match bytes with [] => s_flushed s | _ => false end;
               s_failed := s_failed s |},
            OL [obs_pr (fun k => [zn k]) r; OL (n_log n1)])
    | OFlush sc =>
        let* x := poll_flush (s_w s) (with_scripts (s_net s) sc []) in
        let '(w1, n1, r) := x in
        Ok ({| s_w := w1; s_r := s_r s; s_net := n1; s_accepted := s_accepted s;
               s_delivered := s_delivered s; s_flushed := is_ready r; s_failed := s_failed s |},
            OL [obs_pr (fun _ => []) r; OL (n_log n1)])
    | OShutdown sc =>
        let* x := poll_shutdown (s_w s) (with_scripts (s_net s) sc []) in
        let '(w1, n1, r) := x in
        Ok ({| s_w := w1; s_r := s_r s; s_net := n1; s_accepted := s_accepted s;
               s_delivered := s_delivered s; s_flushed := is_ready r; s_failed := s_failed s |},
            OL [obs_pr (fun _ => []) r; OL (n_log n1)])
    | ORead cap sc =>
        let* x := poll_read (s_r s) (with_scripts (s_net s) [] sc) cap in
        let '(r1, n1, r) := x in
        let out := match r with PReady out => out | _ => [] end in
        let stop := match r with PReady [] => negb (cap =? 0) | PErr _ => true | _ => false end in
        Ok ({| s_w := s_w s; s_r := r1; s_net := n1; s_accepted := s_accepted s;
               s_delivered := s_delivered s ++ out; s_flushed := s_flushed s;
               s_failed := s_failed s || stop |},
            OL [obs_pr (fun out => [zn (length out); OZ (hash_bytes out)]) r; OL (n_log n1)])
    | OTamper f =>
        let n := s_net s in
        let '(chan', cut) := f (n_hist n) (length (n_rin n)) (n_chan n) in
        Ok ({| s_w := s_w s; s_r := s_r s;
               s_net := {| n_wscript := []; n_rscript := []; n_hist := n_hist n; n_chan := chan';
                           n_rin := n_rin n; n_cut := n_cut n || cut; n_closed := n_closed n || cut;
                           n_log := [] |};
               s_accepted := s_accepted s; s_delivered := s_delivered s; s_flushed := s_flushed s;
               s_failed := s_failed s |},
            OL [OL [OZ 0; zn (length chan')]; OL []])
    end.

  Fixpoint run (s : sim) (ops : list op) : outcome unit sim :=
    match ops with
    | [] => Ok s
    | o :: rest => let* x := step s o in run (fst x) rest
    end.

  Definition is_tamper (o : op) : bool := match o with OTamper _ => true | _ => false end.
End Stream.

(* ------------------------------------------------------------------------- *)
(* frames on the wire: lengths of the complete frames and the number of trailing bytes *)
Fixpoint parse_frames (fuel : nat) (l : list Z) : list nat * nat :=
  match fuel with
  | O => ([], length l)
  | S f =>
      match l with
      | b0 :: b1 :: rest =>
          let L := dec16 (b0, b1) in
          if L <=? length rest then
            let '(fs, t) := parse_frames f (skipn L rest) in (L :: fs, t)
          else ([], length l)
      | _ => ([], length l)
      end
  end.
Definition wire_frames (l : list Z) : list nat * nat := parse_frames (S (length l)) l.

(* start offsets and body lengths of the complete frames *)
Fixpoint frame_table (fuel off : nat) (l : list Z) : list (nat * nat) :=
  match fuel with
  | O => []
  | S f =>
      match l with
      | b0 :: b1 :: rest =>
          let L := dec16 (b0, b1) in
          if L <=? length rest then (off, L) :: frame_table f (off + 2 + L) (skipn L rest) else []
      | _ => []
      end
  end.

(* ------------------------------------------------------------------------- *)
(* the concrete single-point tamperings of the correspondence check.  Frames are addressed by their
   index in the untampered history; a tampering applies only if the frame(s) it names are completely
   in flight (not yet handed to the reader), otherwise it does nothing. *)
Inductive tkind : Type :=
| KFlipBody (i r : nat) (mask : Z)     (* xor one byte of the ciphertext (body or tag) of frame i *)
| KFlipLen (i which : nat) (mask : Z)  (* xor one byte of the length field of frame i *)
| KTrunc (i r : nat)                   (* cut the connection r bytes into frame i *)
| KSwap (i j : nat)                    (* exchange frames i and j *)
| KDup (i : nat)                       (* replay: frame i appears twice in a row *)
| KDrop (i : nat)                      (* delete frame i *)
| KInsert (i len : nat) (seed : Z)     (* insert a well-delimited frame of junk before frame i *)
| KDropByte (i r : nat)                (* delete one byte of the body of frame i *)
| KAddByte (i r : nat) (b : Z).        (* insert one byte into the body of frame i *)

Definition xor_at (l : list Z) (off : nat) (mask : Z) : list Z :=
  match skipn off l with
  | b :: rest => firstn off l ++ Z.lxor b mask :: rest
  | [] => l
  end.
Definition slice (l : list Z) (off len : nat) : list Z := firstn len (skipn off l).
Fixpoint junk (seed : Z) (len : nat) : list Z :=
  match len with O => [] | S len' => Z.land seed 255 :: junk (seed * 5 + 7)%Z len' end.

Definition tamper_of (k : tkind) : tamper_fn := fun hist consumed chan =>
  let tbl := frame_table (S (length hist)) 0 hist in
  (* frame i, if completely in flight and the channel still is the unconsumed suffix of hist *)
  let get (i : nat) : option (nat * nat) :=
    match nth_error tbl i with
    | Some (st, L) =>
        if (consumed <=? st) && (st + 2 + L <=? length hist) && (length chan =? length hist - consumed)
        then Some (st - consumed, L) else None
    | None => None
    end in
  match k with
  | KFlipBody i r mask =>
      match get i with
      | Some (o, L) => if L =? 0 then (chan, false) else (xor_at chan (o + 2 + r mod L) mask, false)
      | None => (chan, false)
      end
  | KFlipLen i which mask =>
      match get i with
      | Some (o, L) => (xor_at chan (o + which mod 2) mask, false)
      | None => (chan, false)
      end
  | KTrunc i r =>
      match get i with
      | Some (o, L) => (firstn (o + r mod (2 + L)) chan, true)
      | None => (chan, false)
      end
  | KSwap i j =>
      match get i, get j with
      | Some (oi, Li), Some (oj, Lj) =>
          if oi <? oj then
            (firstn oi chan ++ slice chan oj (2 + Lj) ++ slice chan (oi + 2 + Li) (oj - (oi + 2 + Li))
               ++ slice chan oi (2 + Li) ++ skipn (oj + 2 + Lj) chan, false)
          else (chan, false)
      | _, _ => (chan, false)
      end
  | KDup i =>
      match get i with
      | Some (o, L) => (firstn (o + 2 + L) chan ++ slice chan o (2 + L) ++ skipn (o + 2 + L) chan, false)
      | None => (chan, false)
      end
  | KDrop i =>
      match get i with
      | Some (o, L) => (firstn o chan ++ skipn (o + 2 + L) chan, false)
      | None => (chan, false)
      end
  | KInsert i len seed =>
      match get i with
      | Some (o, L) =>
          let p := le16 len in
          (firstn o chan ++ fst p :: snd p :: junk seed len ++ skipn o chan, false)
      | None => (chan, false)
      end
  | KDropByte i r =>
      match get i with
      | Some (o, L) => if L =? 0 then (chan, false) else
          (firstn (o + 2 + r mod L) chan ++ skipn (o + 2 + r mod L + 1) chan, false)
      | None => (chan, false)
      end
  | KAddByte i r b =>
      match get i with
      | Some (o, L) => if L =? 0 then (chan, false) else
          (firstn (o + 2 + r mod L) chan ++ b :: skipn (o + 2 + r mod L) chan, false)
      | None => (chan, false)
      end
  end.

(* ------------------------------------------------------------------------- *)
(* toy AEAD: identity "encryption" and a 16 byte tag binding the nonce and the plaintext *)
Fixpoint le_bytes (k : nat) (z : Z) : list Z :=
  match k with O => [] | S k' => (z mod 256)%Z :: le_bytes k' (z / 256)%Z end.
Definition toy_tag (n : nat) (p : list Z) : list Z :=
  le_bytes 8 (Z.of_nat n) ++ le_bytes 8 (hash_bytes p).
Definition toy_enc (n : nat) (p : list Z) : list Z := p ++ toy_tag n p.
Fixpoint list_eqb (a b : list Z) : bool :=
  match a, b with
  | [], [] => true
  | x :: a', y :: b' => (x =? y)%Z && list_eqb a' b'
  | _, _ => false
  end.
Definition toy_dec (n : nat) (c : list Z) : option (list Z) :=
  if length c <? 16 then None else
  let body := firstn (length c - 16) c in
  if list_eqb (skipn (length c - 16) c) (toy_tag n body) then Some body else None.

Definition MAX_PAYLOAD_LEN : nat := Z.to_nat 65519.

(* ------------------------------------------------------------------------- *)
(* correspondence driver *)

(* plaintext pattern: byte i of the stream written in a case with the given salt *)
Definition PATK : Z := 1103515245.
Definition pat (salt : Z) (i : Z) : Z := Z.land (Z.shiftr (i * PATK + salt) 16) 255.
(* y = i * PATK + salt, kept incrementally *)
Fixpoint pat_from (y : Z) (len : nat) : list Z :=
  match len with O => [] | S len' => Z.land (Z.shiftr y 16) 255 :: pat_from (y + PATK)%Z len' end.
Definition pat_bytes (salt : Z) (start len : nat) : list Z :=
  pat_from (Z.of_nat start * PATK + salt)%Z len.

Inductive cop : Type :=
| CWrite (len : nat) (script : list Z)
| CFlush (script : list Z)
| CShutdown (script : list Z)
| CRead (cap : nat) (script : list Z)
| CTamper (k : tkind).

Definition tresp_of (z : Z) : tresp :=
  if (z =? -1)%Z then TPending else if (z <? 0)%Z then TFail else TOk (Z.to_nat z).

Definition op_of (salt : Z) (s : sim) (c : cop) : op :=
  match c with
  | CWrite len sc => OWrite (pat_bytes salt (length (s_accepted s)) len) (map tresp_of sc)
  | CFlush sc => OFlush (map tresp_of sc)
  | CShutdown sc => OShutdown (map tresp_of sc)
  | CRead cap sc => ORead cap (map tresp_of sc)
  | CTamper k => OTamper (tamper_of k)
  end.

Fixpoint crun (salt : Z) (s : sim) (cs : list cop) (acc : list obsv) : sim * list obsv :=
  match cs with
  | [] => (s, acc)
  | c :: rest =>
      match step toy_enc toy_dec s (op_of salt s c) with
      | Ok (s1, o) => crun salt s1 rest (acc ++ [o])
      | Err _ => (s, acc ++ [OL [OZ 4]])
      | Panic p => (s, acc ++ [OL [OZ 3; OZ (panic_code p)]])
      end
  end.

(* input: payload capacity (65519 for the real code), salt, operations *)
Definition stream_case : Type := nat * Z * list cop.
Definition run_stream_case (c : stream_case) : obsv :=
  let '(pc, salt, cs) := c in
  let '(s, obs) := crun salt (sim_init pc) cs [] in
  let '(fs, t) := wire_frames (n_hist (s_net s)) in
  OL [OL obs; OL (map zn fs); zn t].

(* bytes.rs alone: operations on one Buffer *)
Inductive bop : Type :=
| BPush (bytes : list Z)
| BWriteCap (off : nat) (bytes : list Z)
| BExtend (n : nat)
| BTake (n : nat)
| BPrefix
| BSetPrefix (a b : Z)
| BShift
| BReset.

Definition buf_obs (b : buffer) : list obsv :=
  [zn (buf_len b); zn (buf_capacity b); ozs (buf_as_slice b)].

Fixpoint brun (b : buffer) (ops : list bop) (acc : list obsv) : list obsv :=
  match ops with
  | [] => acc
  | o :: rest =>
      let r : outcome unit (buffer * list obsv) :=
        match o with
        | BPush bytes => let '(b1, n) := buf_push b bytes in Ok (b1, [zn n])
        | BWriteCap off bytes => let* b1 := buf_write_cap b off bytes in Ok (b1, [])
        | BExtend n => let* b1 := buf_extend b n in Ok (b1, [])
        | BTake n => let* b1 := buf_take b n in Ok (b1, [])
        | BPrefix => let* p := buf_prefix2 b in Ok (b, [OZ (fst p); OZ (snd p)])
        | BSetPrefix x y => let* b1 := buf_set_prefix2 b (x, y) in Ok (b1, [])
        | BShift => Ok (buf_shift b, [])
        | BReset => Ok (buf_reset b, [])
        end in
      match r with
      | Ok (b1, extra) => brun b1 rest (acc ++ [OL (OZ 0 :: buf_obs b1 ++ extra)])
      | Err _ => acc ++ [OL [OZ 4]]
      | Panic p => acc ++ [OL [OZ 3; OZ (panic_code p)]]
      end
  end.

Definition buf_case : Type := nat * list bop.
Definition run_buf_case (c : buf_case) : obsv := OL (brun (buf_new (fst c)) (snd c) []).

Inductive case : Type := CaseStream (c : stream_case) | CaseBuf (c : buf_case).
Definition run_case (c : case) : obsv :=
  match c with CaseStream c => run_stream_case c | CaseBuf c => run_buf_case c end.
