(* Running the replica model on operation sequences (with crash/restart) and the
   observation encoding compared with the implementation (harness bin `replica`). *)
From Coq Require Import ZArith List Bool.
From EC Require Import Lib.Outcome Lib.U64 Lib.ListW Lib.Obs Model.Msgs Model.Replica.
Import ListNotations.
Open Scope Z_scope.

(* ---------- observations ---------- *)
Definition obs_view (v : view) : obsv := OL [OZ (vgen v); OZ (vepoch v); OZ (vnum v)].
Definition obs_hdr (h : header) : obsv := OL [OZ (hnum h); OZ (hpay h)].
Definition obs_commit (c : commit) : obsv := OL [obs_view (cview c); obs_hdr (cprop c)].
(* certificates are observed without their signer sets (DESIGN §4.3: which of several
   equally valid certificates for one view is kept depends on byte order of signatures) *)
Definition obs_cqc (q : cqc) : obsv := obs_commit (qmsg q).
Definition obs_timeout (t : timeout) : obsv :=
  OL [obs_view (tview t); oopt obs_commit (thv t); oopt obs_cqc (thq t)].

Fixpoint bits_val (b : list bool) : Z :=
  match b with [] => 0 | x :: b' => (if x then 1 else 0) + 2 * bits_val b' end.
Fixpoint insert_by {A} (key : A -> Z) (x : A) (l : list A) : list A :=
  match l with
  | [] => [x]
  | y :: l' => if key x <? key y then x :: l else y :: insert_by key x l'
  end.
Definition sort_by {A} (key : A -> Z) (l : list A) : list A := fold_right (insert_by key) [] l.

Definition obs_tqc (t : tqc) : obsv :=
  OL [obs_view (tqview t);
      OL (map (fun en => OL [OL (map ob (snd en)); obs_timeout (fst en)])
              (sort_by (fun en => bits_val (snd en)) (tqmap t)))].
Definition obs_just (j : justification) : obsv :=
  match j with JCommit q => OL [OZ 0; obs_cqc q] | JTimeout t => OL [OZ 1; obs_tqc t] end.
Definition obs_cmsg (m : cmsg) : obsv :=
  match m with
  | MProposal p j => OL [OZ 0; oopt OZ p; obs_just j]
  | MCommit c => OL [OZ 1; obs_commit c]
  | MTimeout t => OL [OZ 2; obs_timeout t]
  | MNewView j => OL [OZ 3; obs_just j]
  end.
Definition phase_code (p : phase) : Z := match p with Prepare => 0 | PCommit => 1 | PTimeout => 2 end.
Definition obs_durable (d : durable) : obsv :=
  OL [OZ (d_epoch d); OZ (d_view d); OZ (phase_code (d_phase d)); oopt obs_commit (d_high_vote d);
      oopt obs_cqc (d_high_cqc d); oopt obs_tqc (d_high_tqc d);
      OL (map (fun p => OL [OZ (fst p); OZ (snd p)])
              (sort_by (fun p => fst p * 4096 + snd p) (d_proposals d)))].
Definition obs_effect (e : effect) : list obsv :=
  match e with
  | EPersist d => [OL [OZ 0; obs_durable d]]
  | ESend m => [OL [OZ 1; obs_cmsg m]]
  | EQueueBlock n h => [OL [OZ 2; OZ n; OZ h]]
  | ENotifyProposer j => []     (* observed separately: the watch only keeps the last value *)
  end.
Definition last_notify (es : list effect) : option justification :=
  fold_left (fun acc e => match e with ENotifyProposer j => Some j | _ => acc end) es None.
Definition obs_effects (es : list effect) : obsv :=
  OL [OL (flat_map obs_effect es); oopt obs_just (last_notify es)].
Definition rerr_obs (e : rerr) : obsv :=
  match e with
  | ROld => OL [OZ 1] | RInvalidLeader => OL [OZ 2] | RInvalidSignature => OL [OZ 3]
  | RInvalidMessage sub => OL [OZ 4; sub]
  | RProposalAlreadyPruned => OL [OZ 5] | RReproposalWithPayload => OL [OZ 6]
  | RMissingPayload => OL [OZ 7] | ROversizedPayload => OL [OZ 8]
  | RMissingPreviousPayload => OL [OZ 9] | RInvalidPayload => OL [OZ 10]
  | RNonValidatorSigner => OL [OZ 11] | RDuplicateSigner => OL [OZ 12]
  | RBlocked => OL [OZ 13] | RInternal => OL [OZ 14]
  end.
Definition obs_result (r : outcome rerr unit) : obsv :=
  match r with
  | Ok _ => OL [OZ 0]
  | Err e => OL [OZ 2; rerr_obs e]
  | Panic p => OL [OZ 1; OZ (panic_code p)]
  end.

Definition obs_snapshot (s : rstate) : obsv :=
  OL [OZ (r_view s); OZ (phase_code (r_phase s)); oopt obs_commit (r_high_vote s);
      oopt obs_cqc (r_high_cqc s); oopt obs_tqc (r_high_tqc s);
      OL (map (fun e => OL [OZ (fst e); OL (map OZ (sort_by (fun x => x) (snd e)))]) (r_cache s));
      OL (map (fun e => OL [OZ (fst e); OZ (snd e)]) (r_commit_views s));
      OL (map (fun e => OL [OZ (fst e); OZ (Z.of_nat (length (snd e)))]) (r_commit_qcs s));
      OL (map (fun e => OL [OZ (fst e); OZ (snd e)]) (r_timeout_views s));
      OL (map (fun e => OZ (fst e)) (r_timeout_qcs s))].

(* ---------- operation sequences with crashes ---------- *)
Inductive rop :=
| OpIn (i : rinput)
| OpCrash (i : rinput) (k : nat) (applied : bool)   (* crash at the k-th persist of this step *)
| OpRestart.                                        (* clean stop + start from the durable state *)

Record run_state := { rs_s : rstate; rs_d : durable; rs_dead : bool }.

Fixpoint apply_effects (d : durable) (next : Z) (es : list effect) : durable * Z :=
  match es with
  | [] => (d, next)
  | EPersist d' :: es' => apply_effects d' next es'
  | EQueueBlock n _ :: es' => apply_effects d (if next =? n then n + 1 else next) es'
  | _ :: es' => apply_effects d next es'
  end.

(* effects up to (and, if [applied], including) the k-th persist; None if there is none *)
Fixpoint cut_at_persist (es : list effect) (k : nat) (applied : bool) : option (list effect) :=
  match es with
  | [] => None
  | EPersist d :: es' =>
      match k with
      | O => Some (if applied then [EPersist d] else [])
      | S k' => option_map (cons (EPersist d)) (cut_at_persist es' k' applied)
      end
  | e :: es' => option_map (cons e) (cut_at_persist es' k applied)
  end.

(* A proposal that misses its deadline while waiting for the previous block returns when the
   view timer has expired: the timer is then the next event of the run loop. *)
Definition rstep_t (cfg : config) (s : rstate) (i : rinput) : hres unit :=
  let '(s', es, r) := rstep cfg s i in
  match r with
  | Err RMissingPreviousPayload =>
      let '(s2, es2, r2) := start_timeout cfg s' in
      (s2, es ++ es2, match r2 with Ok _ => r | _ => r2 end)
  | _ => (s', es, r)
  end.

Definition run_op (cfg : config) (st : run_state) (o : rop) : run_state * obsv :=
  if rs_dead st then (st, OL [OZ 9]) else
  match o with
  | OpRestart =>
      let s := rstart cfg (rs_d st) (r_store_first (rs_s st)) (r_store_next (rs_s st)) in
      let '(s', es, r) := rprologue cfg s in
      let '(d', _) := apply_effects (rs_d st) (r_store_next s) es in
      ({| rs_s := s'; rs_d := d'; rs_dead := negb (is_ok r) |},
       OL [obs_result r; obs_effects es; obs_snapshot s'])
  | OpIn i =>
      let '(s', es, r) := rstep_t cfg (rs_s st) i in
      let '(d', _) := apply_effects (rs_d st) (r_store_next (rs_s st)) es in
      ({| rs_s := s'; rs_d := d';
          rs_dead := match r with Panic _ | Err RBlocked | Err RInternal => true | _ => false end |},
       OL [obs_result r; obs_effects es; obs_snapshot s'])
  | OpCrash i k applied =>
      let '(s', es, r) := rstep_t cfg (rs_s st) i in
      match cut_at_persist es k applied with
      | None =>
          let '(d', _) := apply_effects (rs_d st) (r_store_next (rs_s st)) es in
          ({| rs_s := s'; rs_d := d';
              rs_dead := match r with Panic _ | Err RBlocked | Err RInternal => true | _ => false end |},
           OL [obs_result r; obs_effects es; obs_snapshot s'])
      | Some pre =>
          let '(d', next') := apply_effects (rs_d st) (r_store_next (rs_s st)) pre in
          let s0 := rstart cfg d' (r_store_first (rs_s st)) next' in
          let '(s1, es1, r1) := rprologue cfg s0 in
          let '(d1, _) := apply_effects d' next' es1 in
          ({| rs_s := s1; rs_d := d1; rs_dead := negb (is_ok r1) |},
           OL [OL [OZ 7]; obs_effects pre; obs_effects es1; obs_snapshot s1])
      end
  end.

Fixpoint run_ops (cfg : config) (st : run_state) (ops : list rop) : list obsv :=
  match ops with
  | [] => []
  | o :: rest => let '(st', ob) := run_op cfg st o in ob :: run_ops cfg st' rest
  end.

(* a case: configuration, initial durable state + store range, operations; the run starts
   with StateMachine::start + the prologue of run *)
Definition run_case (c : config * durable * Z * Z * list rop) : obsv :=
  let '(cfg, d, first, next, ops) := c in
  let s0 := rstart cfg d first next in
  let '(s1, es, r) := rprologue cfg s0 in
  let '(d1, _) := apply_effects d next es in
  OL (OL [obs_result r; obs_effects es; obs_snapshot s1]
      :: run_ops cfg {| rs_s := s1; rs_d := d1; rs_dead := negb (is_ok r) |} ops).
