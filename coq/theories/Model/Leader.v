(* Model of Schedule::new and Schedule::view_leader
   (node/libs/roles/src/validator/messages/schedule.rs).
   Keys are represented by their rank in the byte order of public keys (the
   only thing the code uses is their order and equality).  The keccak digest of
   the turn number enters as an argument [h]: the theorems hold for every [h]. *)
From Coq Require Import ZArith List Bool.
From EC Require Import Lib.Outcome Lib.U64 Lib.Obs.
Import ListNotations.
Open Scope Z_scope.

Record vinfo := { vkey : Z; vweight : Z; vleader : bool }.
Inductive mode := RoundRobin | Weighted.
Record selection := { sfreq : Z; smode : mode }.

Inductive serr := EDuplicateKey | EZeroWeight | EOverflow | EEmpty | ENoLeader.

Record schedule := {
  svec : list vinfo;          (* sorted by key: BTreeMap::into_values *)
  stotal : Z;
  sleaders : list nat;        (* indexes into svec of leader-eligible validators *)
  ssel : selection;
  sleader_weight : Z
}.

Fixpoint has_key (k : Z) (m : list vinfo) : bool :=
  match m with [] => false | v :: m' => (vkey v =? k) || has_key k m' end.

(* BTreeMap::insert for a key known to be absent: sorted insertion. *)
Fixpoint insert (v : vinfo) (m : list vinfo) : list vinfo :=
  match m with
  | [] => [v]
  | x :: m' => if vkey v <? vkey x then v :: m else x :: insert v m'
  end.

(* The loop of Schedule::new: (map, total_weight, leader_weight). *)
Fixpoint new_loop (vs : list vinfo) (m : list vinfo) (tot lw : Z) : outcome serr (list vinfo * Z * Z) :=
  match vs with
  | [] => Ok (m, tot, lw)
  | v :: vs' =>
      if has_key (vkey v) m then Err EDuplicateKey else
      if vweight v <=? 0 then Err EZeroWeight else
      match u64_checked_add tot (vweight v) with
      | None => Err EOverflow
      | Some tot' =>
          (* leader_weight += v.weight "can't overflow"; modelled as plain addition and
             proved to stay below the total (Proofs/LeaderProofs.v). *)
          let lw' := if vleader v then lw + vweight v else lw in
          new_loop vs' (insert v m) tot' lw'
      end
  end.

Fixpoint leader_indexes (i : nat) (m : list vinfo) : list nat :=
  match m with
  | [] => []
  | v :: m' => if vleader v then i :: leader_indexes (S i) m' else leader_indexes (S i) m'
  end.

Definition schedule_new (vs : list vinfo) (sel : selection) : outcome serr schedule :=
  let* r := new_loop vs [] 0 0 in
  let '(m, tot, lw) := r in
  match m with
  | [] => Err EEmpty
  | _ =>
      let ls := leader_indexes 0 m in
      match ls with
      | [] => Err ENoLeader
      | _ => Ok {| svec := m; stotal := tot; sleaders := ls; ssel := sel; sleader_weight := lw |}
      end
  end.

(* The weighted walk: for l in leaders { offset += weight; if eligibility < offset return }. *)
Fixpoint walk (vec : list vinfo) (ls : list nat) (elig offset : Z) : outcome unit Z :=
  match ls with
  | [] => Panic PUnreachable
  | l :: ls' =>
      match nth_error vec l with
      | None => Panic PUnwrap
      | Some v =>
          let offset' := offset + vweight v in
          if elig <? offset' then Ok (vkey v) else walk vec ls' elig offset'
      end
  end.

(* turn = view / frequency, with the documented meaning of frequency 0 (never rotates)
   after repair F2; [fixed = false] transcribes the pre-repair code. *)
Definition turn_of (fixed : bool) (view freq : Z) : outcome unit Z :=
  if freq =? 0 then (if fixed then Ok 0 else Panic PDivZero) else Ok (view / freq).

(* leader_weighted_eligibility: (keccak(turn) mod leader_weight) as u64.  Pre-repair the
   code indexes digit 0 of a BigUint, which does not exist when the residue is 0 (F1). *)
Definition eligibility (fixed : bool) (h lw : Z) : outcome unit Z :=
  if lw =? 0 then Panic PDivZero else
  let r := h mod lw in
  if (r =? 0) && negb fixed then Panic PIndex else Ok r.

(* [h] = keccak256(turn.to_be_bytes()) as an integer. *)
Definition view_leader_gen (fixed : bool) (s : schedule) (view h : Z) : outcome unit Z :=
  let* turn := turn_of fixed view (sfreq (ssel s)) in
  match smode (ssel s) with
  | RoundRobin =>
      match sleaders s with
      | [] => Panic PDivZero     (* turn % self.leaders.len() *)
      | _ =>
          let i := Z.to_nat (turn mod Z.of_nat (length (sleaders s))) in
          match nth_error (sleaders s) i with
          | None => Panic PIndex
          | Some idx =>
              match nth_error (svec s) idx with
              | None => Panic PUnwrap
              | Some v => Ok (vkey v)
              end
          end
      end
  | Weighted =>
      let* e := eligibility fixed h (sleader_weight s) in
      walk (svec s) (sleaders s) e 0
  end.

Definition view_leader := view_leader_gen true.
Definition view_leader_orig := view_leader_gen false.

(* Which turn the digest must be taken of (so that the harness and theorems agree). *)
Definition turn_value (s : schedule) (view : Z) : Z :=
  if sfreq (ssel s) =? 0 then 0 else view / sfreq (ssel s).

(* ---- observation encoding for the correspondence ---- *)
Definition serr_code (e : serr) : Z :=
  match e with EDuplicateKey => 1 | EZeroWeight => 2 | EOverflow => 3 | EEmpty => 4 | ENoLeader => 5 end.

Definition obs_sched (s : schedule) : obsv :=
  OL [ OL (map (fun v => OL [OZ (vkey v); OZ (vweight v); ob (vleader v)]) (svec s));
       OZ (stotal s);
       OL (map (fun i => OZ (Z.of_nat i)) (sleaders s)) ].

Definition obs_leader (r : outcome unit Z) : obsv :=
  match r with
  | Ok k => OL [OZ 0; OZ k]
  | Err _ => OL [OZ 2]
  | Panic p => OL [OZ 1; OZ (panic_code p)]
  end.

(* A case: validators in listing order, selection, and a list of (view, digest) queries. *)
Definition run_case (fixed : bool) (c : list vinfo * selection * list (Z * Z)) : obsv :=
  let '(vs, sel, qs) := c in
  match schedule_new vs sel with
  | Err e => OL [OZ 2; OZ (serr_code e)]
  | Panic p => OL [OZ 1; OZ (panic_code p)]
  | Ok s => OL [OZ 0; obs_sched s;
                OL (map (fun q => obs_leader (view_leader_gen fixed s (fst q) (snd q))) qs)]
  end.
