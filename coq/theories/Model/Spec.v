(* An independent Gallina transcription of the ChonkyBFT replica SPECIFICATION
     /repo/spec/informal-spec/{replica.rs, types.rs, proposer.rs, fetcher.rs, README.md}
   (not of the implementation: that is Model/Replica.v).  The transcription follows the
   pseudo-Rust line by line; an `assert!` that fails makes the handler reject the input (the
   state is then unchanged: "just ignore it").  The message and certificate types are the
   symbolic ones of Model/Msgs.v and "verify" is the verification function of Model/Msgs.v.

   Every place where the specification is silent / ambiguous and a reading had to be chosen is
   marked [CHOICE n]; every place where specification and implementation differ is marked
   [DIFF n].  Both lists are repeated at the end of the file. *)
From Coq Require Import ZArith List Bool.
From EC Require Import Lib.Outcome Lib.U64 Lib.ListW Lib.Obs Model.Msgs Model.Replica.
Import ListNotations.
Open Scope Z_scope.

(* ---------- ReplicaState (replica.rs:4-29) ---------- *)
Record sstate := {
  sp_view : Z;                          (* view *)
  sp_phase : phase;                     (* phase *)
  sp_high_vote : option commit;         (* high_vote *)
  sp_high_cqc : option cqc;             (* high_commit_qc *)
  sp_high_tqc : option tqc;             (* high_timeout_qc *)
  sp_cached : list (Z * Z);             (* cached_proposals: keys (block number, block hash); a
                                           block is represented by its hash.  Never pruned. *)
  sp_next : Z;                          (* committed_blocks, represented by the number of the next
                                           block: committed_blocks.last().map_or(0, |b| number+1)
                                           [DIFF 1: counted from the first block of the epoch] *)
  sp_commits : list (Z * commit);       (* the store of signed commit votes (sender, vote): unbounded *)
  sp_timeouts : list (Z * timeout)      (* the store of signed timeout votes (sender, vote) *)
}.
(* committee, pk: in the configuration ([cC cfg], [cme cfg]) *)

Definition sp_set_view a v := {| sp_view := v; sp_phase := sp_phase a; sp_high_vote := sp_high_vote a; sp_high_cqc := sp_high_cqc a; sp_high_tqc := sp_high_tqc a; sp_cached := sp_cached a; sp_next := sp_next a; sp_commits := sp_commits a; sp_timeouts := sp_timeouts a |}.
Definition sp_set_phase a p := {| sp_view := sp_view a; sp_phase := p; sp_high_vote := sp_high_vote a; sp_high_cqc := sp_high_cqc a; sp_high_tqc := sp_high_tqc a; sp_cached := sp_cached a; sp_next := sp_next a; sp_commits := sp_commits a; sp_timeouts := sp_timeouts a |}.
Definition sp_set_high_vote a x := {| sp_view := sp_view a; sp_phase := sp_phase a; sp_high_vote := x; sp_high_cqc := sp_high_cqc a; sp_high_tqc := sp_high_tqc a; sp_cached := sp_cached a; sp_next := sp_next a; sp_commits := sp_commits a; sp_timeouts := sp_timeouts a |}.
Definition sp_set_high_cqc a x := {| sp_view := sp_view a; sp_phase := sp_phase a; sp_high_vote := sp_high_vote a; sp_high_cqc := x; sp_high_tqc := sp_high_tqc a; sp_cached := sp_cached a; sp_next := sp_next a; sp_commits := sp_commits a; sp_timeouts := sp_timeouts a |}.
Definition sp_set_high_tqc a x := {| sp_view := sp_view a; sp_phase := sp_phase a; sp_high_vote := sp_high_vote a; sp_high_cqc := sp_high_cqc a; sp_high_tqc := x; sp_cached := sp_cached a; sp_next := sp_next a; sp_commits := sp_commits a; sp_timeouts := sp_timeouts a |}.
Definition sp_set_cached a x := {| sp_view := sp_view a; sp_phase := sp_phase a; sp_high_vote := sp_high_vote a; sp_high_cqc := sp_high_cqc a; sp_high_tqc := sp_high_tqc a; sp_cached := x; sp_next := sp_next a; sp_commits := sp_commits a; sp_timeouts := sp_timeouts a |}.
Definition sp_set_next a x := {| sp_view := sp_view a; sp_phase := sp_phase a; sp_high_vote := sp_high_vote a; sp_high_cqc := sp_high_cqc a; sp_high_tqc := sp_high_tqc a; sp_cached := sp_cached a; sp_next := x; sp_commits := sp_commits a; sp_timeouts := sp_timeouts a |}.
Definition sp_set_commits a x := {| sp_view := sp_view a; sp_phase := sp_phase a; sp_high_vote := sp_high_vote a; sp_high_cqc := sp_high_cqc a; sp_high_tqc := sp_high_tqc a; sp_cached := sp_cached a; sp_next := sp_next a; sp_commits := x; sp_timeouts := sp_timeouts a |}.
Definition sp_set_timeouts a x := {| sp_view := sp_view a; sp_phase := sp_phase a; sp_high_vote := sp_high_vote a; sp_high_cqc := sp_high_cqc a; sp_high_tqc := sp_high_tqc a; sp_cached := sp_cached a; sp_next := sp_next a; sp_commits := sp_commits a; sp_timeouts := x |}.

(* a handler: None = an assert failed (input ignored), Some (state, messages sent) *)
Definition sres := option (sstate * list cmsg).
Definition sassert (b : bool) (k : sres) : sres := if b then k else None.

(* =================================================================== *)
(* types.rs                                                             *)

(* Justification::view(): qc.view() + 1.  The specification's numbers are unbounded.
   [DIFF 2: the implementation computes in u64; view.next() / number.next() overflow is a panic
   (dev profile) there.]  The view keeps the genesis / epoch of the certificate, which the
   specification does not have [DIFF 3: chain and epoch binding of every message]. *)
Definition sjust_view (j : justification) : view :=
  let v := match j with JCommit q => cview (qmsg q) | JTimeout t => tqview t end in
  {| vgen := vgen v; vepoch := vepoch v; vnum := vnum v + 1 |}.

(* TimeoutQC::high_vote (types.rs:265-311): weights are added per CommitVote (view, number, hash).
   [DIFF 4: the implementation adds them per block (number, hash), whatever the view of the vote.] *)
Fixpoint svote_add (c : commit) (w : Z) (m : list (commit * Z)) : list (commit * Z) :=
  match m with
  | [] => [(c, w)]
  | (c', w') :: rest => if commit_eqb c' c then (c', w' + w) :: rest else (c', w') :: svote_add c w rest
  end.
Fixpoint svote_count (C : committee) (entries : list (timeout * list bool)) (m : list (commit * Z))
  : list (commit * Z) :=
  match entries with
  | [] => m
  | (msg, signers) :: rest =>
      match thv msg with
      | Some c => svote_count C rest (svote_add c (weight (cweights C) signers) m)
      | None => svote_count C rest m
      end
  end.
Definition shigh_vote (C : committee) (t : tqc) : option commit :=
  match filter (fun x => subquorum C <=? snd x) (svote_count C (tqmap t) []) with
  | [x] => Some (fst x)       (* exactly one subquorum *)
  | _ => None
  end.

(* Justification::get_implied_block (types.rs:63-104).  qc.high_commit_qc ("the highest one") is
   Msgs.high_qc.  [DIFF 1: `None => 0` is the first block of the epoch in the implementation.] *)
Definition simplied_block (C : committee) (first_block : Z) (j : justification) : Z * option Z :=
  match j with
  | JCommit q => (hnum (cprop (qmsg q)) + 1, None)
  | JTimeout t =>
      let hv := shigh_vote C t in
      let hq := high_qc t in
      match hv with
      | Some v =>
          if match hq with None => true | Some q => hnum (cprop (qmsg q)) <? hnum (cprop v) end
          then (hnum (cprop v), Some (hpay (cprop v)))
          else (match hq with Some q => hnum (cprop (qmsg q)) + 1 | None => first_block end, None)
      | None => (match hq with Some q => hnum (cprop (qmsg q)) + 1 | None => first_block end, None)
      end
  end.

(* =================================================================== *)
(* replica.rs                                                           *)
Section Spec.
  Variable cfg : config.
  Let g := cg cfg.
  Let e := ce cfg.
  Let C := cC cfg.

  (* verify_sig of a vote / new-view: [CHOICE 1] the signature is checked against the committee
     (the specification has no notion of a non-member sender); for a proposal the leader check
     already fixes the sender. *)
  Definition sverify_sig (key : Z) (sig_ok : bool) : bool := sig_ok && ccontains cfg key.
  Definition is_ok_tt {E} (x : outcome E unit) : bool := match x with Ok _ => true | _ => false end.

  (* max(Some(qc), self.high_commit_qc): [CHOICE 2] certificates are ordered by view(); on a tie
     Rust's max returns its second argument, i.e. the certificate already held is kept. *)
  Definition smax_cqc (q : cqc) (cur : option cqc) : option cqc :=
    match cur with
    | None => Some q
    | Some c => if vnum (cview (qmsg c)) <? vnum (cview (qmsg q)) then Some q else Some c
    end.
  Definition smax_tqc (t : tqc) (cur : option tqc) : option tqc :=
    match cur with
    | None => Some t
    | Some c => if vnum (tqview c) <? vnum (tqview t) then Some t else Some c
    end.

  (* fn process_commit_qc (replica.rs:186-194) *)
  Definition sprocess_commit_qc (a : sstate) (qo : option cqc) : sstate :=
    match qo with
    | None => a
    | Some q =>
        let a := sp_set_high_cqc a (smax_cqc q (sp_high_cqc a)) in
        let n := hnum (cprop (qmsg q)) in
        let h := hpay (cprop (qmsg q)) in
        (* let Some(block) = self.cached_proposals.get(..) else { return } *)
        if existsb (fun p => (fst p =? n) && (snd p =? h)) (sp_cached a) then
          (* if self.committed_blocks.len() == qc.vote.block_number { push }
             [DIFF 5: the implementation does this only when the certificate is newer than the one
              held, and WAITS (RBlocked) when its block store has a gap below n] *)
          if sp_next a =? n then sp_set_next a (n + 1) else a
        else a
    end.

  (* match justification { Commit(qc) => .., Timeout(qc) => .. } (replica.rs:170-176, 250-256) *)
  Definition sprocess_justification (a : sstate) (j : justification) : sstate :=
    match j with
    | JCommit q => sprocess_commit_qc a (Some q)
    | JTimeout t =>
        let a := sprocess_commit_qc a (high_qc t) in
        sp_set_high_tqc a (smax_tqc t (sp_high_tqc a))
    end.

  (* fn create_justification (replica.rs:275-284): Option<ViewNumber> comparison, None < Some *)
  Definition sopt_ge (x y : option Z) : bool :=
    match x, y with
    | _, None => true
    | None, Some _ => false
    | Some p, Some q => q <=? p
    end.
  Definition screate_justification (a : sstate) : option justification :=
    match sp_high_cqc a, sp_high_tqc a with
    | None, None => None                 (* assert!(.. is_some() || .. is_some()) *)
    | _, _ =>
        if sopt_ge (option_map (fun q => vnum (cview (qmsg q))) (sp_high_cqc a))
                   (option_map (fun t => vnum (tqview t)) (sp_high_tqc a))
        then option_map JCommit (sp_high_cqc a)
        else option_map JTimeout (sp_high_tqc a)
    end.

  (* fn start_new_view (replica.rs:262-272) *)
  Definition sstart_new_view (a : sstate) (v : Z) : sres :=
    let a := sp_set_phase (sp_set_view a v) Prepare in
    match screate_justification a with
    | None => None
    | Some j => Some (a, [MNewView j])
    end.

  (* fn on_proposal (replica.rs:103-183) *)
  Definition son_proposal (a : sstate) (key : Z) (sig_ok : bool) (payload : option Z) (j : justification) : sres :=
    let pv := sjust_view j in
    let v := vnum pv in
    sassert (((v =? sp_view a) && phase_eqb (sp_phase a) Prepare) || (sp_view a <? v)) (
    sassert (key =? cleader cfg v) (
    (* proposal.verify(): verify_sig() && justification.verify() *)
    sassert (sig_ok && is_ok_tt (justification_verify g e C j)) (
    let '(n, oh) := simplied_block C (cfirst cfg) j in
    (* "Vote only if you have collected all committed blocks so far"
       [DIFF 6: the implementation only requires that the block is not pruned (n >= first stored)
        and, for a new block, that block n-1 is stored; it does not require n to be the next
        block] *)
    sassert (n =? sp_next a) (
    let k (a : sstate) (h : Z) : sres :=
      let vote := {| cview := pv; cprop := {| hnum := n; hpay := h |} |} in
      let a := sp_set_high_vote (sp_set_phase (sp_set_view a v) PCommit) (Some vote) in
      let a := sprocess_justification a j in
      Some (a, [MCommit vote]) in
    match oh with
    | Some h =>
        (* reproposal: assert!(proposal.block.is_none()) *)
        match payload with Some _ => None | None => k a h end
    | None =>
        match payload with
        | None => None                              (* assert!(proposal.block.is_some()) *)
        | Some p =>
            (* assert!(self.verify_block(block_number, block)): [CHOICE 3] the verdict of the
               execution layer.  [DIFF 7: the implementation also enforces max_payload_size, the
               first block of the epoch, and that the previous block is stored] *)
            sassert (cpok cfg n p) (k (sp_set_cached a ((n, p) :: sp_cached a)) p)
        end
    end)))).

  (* Store the vote. "We will never store duplicate (same view and sender) votes." *)
  Definition sstored_commit (a : sstate) (key v : Z) : bool :=
    existsb (fun kc => (fst kc =? key) && (vnum (cview (snd kc)) =? v)) (sp_commits a).
  Definition sstored_timeout (a : sstate) (key v : Z) : bool :=
    existsb (fun kt => (fst kt =? key) && (vnum (tview (snd kt)) =? v)) (sp_timeouts a).

  (* the signer set of a list of senders as a bitmap over the committee *)
  Definition voters_bitmap (keys : list Z) : list bool :=
    fold_left (fun b k => match cindex C k with Some i => bv_set b i | None => b end) keys
              (bv_new (length C)).

  (* self.get_commit_qc(view): not defined in the specification.  [CHOICE 4] "identical commit
     votes with at least QUORUM_WEIGHT from different replicas" (types.rs:128): the stored votes
     identical to the one just stored, if their senders reach the quorum (any other group of
     identical votes for this view would have reached it at an earlier step). *)
  Definition sget_commit_qc (a : sstate) (c : commit) : option cqc :=
    let voters := map fst (filter (fun kc => commit_eqb (snd kc) c) (sp_commits a)) in
    let bm := voters_bitmap voters in
    if weight (cweights C) bm <? quorum C then None
    else Some {| qmsg := c; qsigners := bm; qagg := map (fun k => (k, RCommit c)) voters |}.

  (* fn on_commit (replica.rs:196-212) *)
  Definition son_commit (a : sstate) (key : Z) (sig_ok : bool) (c : commit) : sres :=
    let v := vnum (cview c) in
    sassert (sp_view a <=? v) (
    (* sig_vote.verify(): [DIFF 3] the implementation's message check also binds genesis and epoch *)
    sassert (sverify_sig key sig_ok && is_ok_tt (commit_verify g e c)) (
    (* assert!(self.store(sig_vote).is_ok())
       [DIFF 8: the implementation keeps, per validator, only the view of its latest vote and
        refuses every vote for that view or an earlier one; and it forgets the votes of views that
        are nobody's latest (README, "Garbage collection")] *)
    sassert (negb (sstored_commit a key v)) (
    let a := sp_set_commits a (sp_commits a ++ [(key, c)]) in
    match sget_commit_qc a c with
    | None => Some (a, [])
    | Some qc =>
        let a := sprocess_commit_qc a (Some qc) in
        sstart_new_view a (v + 1)
    end))).

  (* self.get_timeout_qc(view): "timeout votes with at least QUORUM_WEIGHT for the same view from
     different replicas" (types.rs:214): all stored votes of the view.  [CHOICE 5] the certificate
     lists them in the order in which they were stored, grouped by message. *)
  Definition sbuild_tqc (vw : view) (votes : list (Z * timeout)) : tqc :=
    fold_left (fun t kt =>
                 match cindex C (fst kt) with
                 | Some i => {| tqview := tqview t; tqmap := tqmap_set (tqmap t) (snd kt) (length C) i;
                                tqagg := tqagg t ++ [(fst kt, TTimeout (snd kt))] |}
                 | None => t
                 end) votes (tqc_new vw).
  Definition sget_timeout_qc (a : sstate) (vw : view) : option tqc :=
    let votes := filter (fun kt => vnum (tview (snd kt)) =? vnum vw) (sp_timeouts a) in
    if weight (cweights C) (voters_bitmap (map fst votes)) <? quorum C then None
    else Some (sbuild_tqc vw votes).

  (* fn on_timeout (replica.rs:214-231) *)
  Definition son_timeout (a : sstate) (key : Z) (sig_ok : bool) (t : timeout) : sres :=
    let v := vnum (tview t) in
    sassert (sp_view a <=? v) (
    sassert (sverify_sig key sig_ok && is_ok_tt (timeout_verify g e C t)) (
    sassert (negb (sstored_timeout a key v)) (
    let a := sp_set_timeouts a (sp_timeouts a ++ [(key, t)]) in
    match sget_timeout_qc a (tview t) with
    | None => Some (a, [])
    | Some qc =>
        let a := sprocess_commit_qc a (high_qc qc) in
        let a := sp_set_high_tqc a (smax_tqc qc (sp_high_tqc a)) in
        sstart_new_view a (v + 1)
    end))).

  (* fn on_new_view (replica.rs:233-260)
     [DIFF 9: the implementation ignores a new-view for the CURRENT view unless it comes from the
      leader of that view] *)
  Definition son_new_view (a : sstate) (key : Z) (sig_ok : bool) (j : justification) : sres :=
    let v := vnum (sjust_view j) in
    sassert (sp_view a <=? v) (
    sassert (sverify_sig key sig_ok && is_ok_tt (justification_verify g e C j)) (
    let a1 := sprocess_justification a j in
    if sp_view a1 <? v then sstart_new_view a1 v else Some (a1, []))).

  (* the timer branch of on_start (replica.rs:60-78).  [CHOICE 6] `self.get_justification(self.view)`
     is create_justification(); in view 0, where no certificate can be held, no new-view is sent
     (the text would hit the assert of create_justification; the comment says view 0 times out at
     once "to provide a justification for the proposer at view 1"). *)
  Definition son_timer (a : sstate) : sres :=
    let a := sp_set_phase a PTimeout in
    let vote := MTimeout {| tview := {| vgen := g; vepoch := e; vnum := sp_view a |};
                            thv := sp_high_vote a; thq := sp_high_cqc a |} in
    if sp_view a =? 0 then Some (a, [vote])
    else match screate_justification a with
         | None => None
         | Some j => Some (a, [MNewView j; vote])
         end.

  (* fetcher.rs: committed_blocks.push(fetch_block_from_peers(next_block_number)).
     [CHOICE 7] the block-sync event of the model delivers block n; it is appended iff n is the
     next block (the fetcher's guard "high_commit_qc is at or above next" is not modelled). *)
  Definition son_sync (a : sstate) (n : Z) : sres :=
    Some (if sp_next a =? n then sp_set_next a (n + 1) else a, []).

  (* one iteration of on_start's loop *)
  Definition spec_handle (a : sstate) (i : rinput) : sres :=
    match i with
    | ITimer => son_timer a
    | ISync n _ => son_sync a n
    | IMsg m =>
        match m_msg m with
        | MProposal p j => son_proposal a (m_key m) (m_sig_ok m) p j
        | MCommit c => son_commit a (m_key m) (m_sig_ok m) c
        | MTimeout t => son_timeout a (m_key m) (m_sig_ok m) t
        | MNewView j => son_new_view a (m_key m) (m_sig_ok m) j
        end
    end.

  Definition spec_step (a : sstate) (i : rinput) : sstate * list cmsg * bool :=
    match spec_handle a i with
    | Some (a', ms) => (a', ms, true)
    | None => (a, [], false)
    end.
End Spec.

(* -------------------------------------------------------------------
   CHOICES (specification silent or ambiguous; reading closest to the code)
     1  a vote / new-view must be signed by a committee member
     2  max of certificates = by view(), the held one kept on a tie
     3  verify_block = verdict of the execution layer on (number, payload)
     4  get_commit_qc(view) = the group of stored votes identical to the vote just stored
     5  get_timeout_qc(view) = all stored votes of the view, in storing order, grouped by message
     6  the timer sends no new-view in view 0
     7  block sync appends block n iff n is the next block
   DIFFERENCES between specification and implementation found while transcribing
     1  block numbers start at the first block of the epoch, not at 0
     2  bounded (u64) view / block numbers: .next() can overflow
     3  genesis hash and epoch are part of every view and are checked on every message
     4  sub-quorum of high votes counted per block (number, hash) instead of per vote
     5  process_commit_qc stores the block only for a certificate NEWER than the one held, and
        blocks while the block store has a gap (the specification skips silently)
     6  on_proposal does not require the implied block to be the next uncommitted one
     7  payload size limit, epoch's first block, previous block must be stored
     8  per validator only the latest vote view is kept (older or equal views refused); votes of
        views that are nobody's latest are dropped
     9  a new-view for the current view is ignored unless sent by the view's leader
    10  the implementation persists its state before sending, notifies the proposer and prunes
        its proposal cache in start_new_view (no counterpart in the specification)
    11  TimeoutVote carries the whole high commit certificate inside the signed vote (the
        specification signs only its view and attaches the certificate), TimeoutQC has no
        separate high_commit_qc field (it is recomputed from the votes)
   ------------------------------------------------------------------- *)
